//! Real-thread engine: the same scenarios on a multi_thread runtime with real OS threads and the
//! blocking API. The schedule is not owned, so only interleaving-sound oracles are applied to
//! these traces (see monitors3.rs).

use crate::actor::*;
use crate::client::*;
use crate::scenario::*;
use crate::sim::{dead_letters, spawn_actor, watch, Outcome, PROBE_BASE};
use crate::trace::*;
use std::sync::{Arc, Mutex};
use std::time::{Duration, Instant};

/// generous one-sided bound: a call that is later than this did not honour its timeout at all
pub const LATE_SLACK_MS: u64 = 10_000;

fn exec_sync(ctx: &ClientCtx, hold: &mut Holdings, i: usize, op: &Op, h: &tokio::runtime::Handle) {
    // blocking message operations are called directly (outside any async context); everything
    // else goes through the async interpreter
    if let Op::Send { h: slot, how, msg } = op {
        if how.is_blocking() {
            let via = mix(0, ctx.c, i);
            match hold.strong.get(*slot).and_then(|s| s.as_ref()) {
                None => {
                    let opn = ctx.world.rec.new_op();
                    ctx.world.rec.rec(K::OpBegin { op: opn, src: ctx.src, hook: None, a: usize::MAX, kind: OpKind::Send { how: *how, mid: msg.id, ty: msg.ty }, slot: *slot, via });
                    ctx.world.rec.rec(K::OpEnd { op: opn, res: Res::Skipped });
                }
                Some(s) => {
                    let opn = ctx.world.rec.new_op();
                    ctx.world.rec.rec(K::OpBegin { op: opn, src: ctx.src, hook: None, a: s.a, kind: OpKind::Send { how: *how, mid: msg.id, ty: msg.ty }, slot: *slot, via });
                    let res = std::panic::catch_unwind(std::panic::AssertUnwindSafe(|| s.inner.send_blocking(*how, msg.clone(), &ctx.world)));
                    let res = match res {
                        Ok(r) => r,
                        Err(p) => Res::Panicked(panic_message(&*p)),
                    };
                    ctx.world.rec.rec(K::OpEnd { op: opn, res });
                }
            }
            return;
        }
    }
    h.block_on(ctx.exec(hold, i, op));
}

/// Lockstep mode: the thread / pool clients meet at a spinning rendezvous before their k-th
/// operation (for at most 2 ms), so that operations of different clients start within nanoseconds
/// of each other instead of microseconds apart.
pub struct Lockstep {
    arrive: Vec<std::sync::atomic::AtomicUsize>,
    expected: Vec<usize>,
}

impl Lockstep {
    fn meet(&self, i: usize) {
        use std::sync::atomic::Ordering;
        if i >= self.arrive.len() || self.expected[i] < 2 {
            return;
        }
        self.arrive[i].fetch_add(1, Ordering::AcqRel);
        let t0 = Instant::now();
        while self.arrive[i].load(Ordering::Acquire) < self.expected[i] && t0.elapsed() < Duration::from_millis(2) {
            std::hint::spin_loop();
        }
    }
}

fn run_sync_client(ctx: ClientCtx, spec: ClientSpec, mut hold: Holdings, h: tokio::runtime::Handle, ls: Option<Arc<Lockstep>>) -> Holdings {
    for (i, cop) in spec.ops.iter().enumerate() {
        if cop.delay > 0 {
            std::thread::sleep(ctx.world.dur(cop.delay));
        }
        if let Some(ls) = &ls {
            ls.meet(i);
        }
        for _ in 0..cop.yields {
            std::thread::yield_now();
        }
        exec_sync(&ctx, &mut hold, i, &cop.op, &h);
    }
    ctx.world.rec.rec(K::ClientDone { c: ctx.c });
    hold
}

pub struct RtResult {
    pub out: Outcome,
    /// the harness itself ran into its watchdog (inconclusive, not a violation)
    pub watchdog: bool,
}

pub fn run_rt(sc: &Scenario, workers: usize) -> RtResult {
    let rt = tokio::runtime::Builder::new_multi_thread().worker_threads(workers.max(1)).enable_time().build().expect("runtime");
    let handle = rt.handle().clone();
    let rec = Recorder::new(Clock::Real(Instant::now()), false);
    set_current(Some(rec.clone()));
    let n = sc.actors.len();
    let world = Arc::new(World { rec: rec.clone(), specs: sc.actors.clone(), peers: Mutex::new((0..n).map(|_| None).collect()), us_per_ms: 1000 });
    if let Some(nd) = dead_letters() {
        rec.rec(K::DeadLetterCount { n: nd });
    }
    let mut watchdog = false;

    // spawn actors + clients
    let mut refs = vec![];
    let mut watchers = vec![];
    {
        let _g = rt.enter();
        for (i, spec) in sc.actors.iter().enumerate() {
            match spawn_actor(i, spec, &world) {
                Some((r, jh)) => {
                    refs.push(Some(Tracked::new(r, i, &rec)));
                    watchers.push(tokio::spawn(watch(i, jh, world.clone())));
                }
                None => refs.push(None),
            }
        }
    }
    enum Cl {
        Task(tokio::task::JoinHandle<Holdings>),
        Thread(std::thread::JoinHandle<Holdings>),
    }
    // every other scenario (by hash) runs its thread / pool clients in lockstep
    let lockstep = if sc.hash64() % 2 == 0 {
        let sync_clients: Vec<&ClientSpec> = sc.clients.iter().filter(|c| c.mode != ClientMode::Task).collect();
        let max_ops = sync_clients.iter().map(|c| c.ops.len()).max().unwrap_or(0);
        let expected: Vec<usize> = (0..max_ops).map(|k| sync_clients.iter().filter(|c| c.ops.len() > k).count()).collect();
        Some(Arc::new(Lockstep { arrive: (0..max_ops).map(|_| std::sync::atomic::AtomicUsize::new(0)).collect(), expected }))
    } else {
        None
    };
    let mut clients = vec![];
    for (c, cs) in sc.clients.iter().enumerate() {
        let mut hold = Holdings::default();
        for (slot, a) in cs.init.iter().enumerate() {
            match refs.get(*a).and_then(|r| r.as_ref()) {
                Some(r) => hold.strong.push(Some(Tracked::new(initial_handle(&r.inner, sc.routing, c, slot), *a, &rec))),
                None => hold.strong.push(None),
            }
        }
        let ctx = ClientCtx { c, src: Src::Client(c), world: world.clone(), routing: sc.routing };
        let cs2 = cs.clone();
        match cs.mode {
            ClientMode::Task => clients.push(Cl::Task(handle.spawn(run_client(ctx, cs2, hold)))),
            ClientMode::Pool => {
                let h2 = handle.clone();
                let ls = lockstep.clone();
                clients.push(Cl::Task(handle.spawn_blocking(move || run_sync_client(ctx, cs2, hold, h2, ls))))
            }
            ClientMode::Thread => {
                let h2 = handle.clone();
                let ls = lockstep.clone();
                clients.push(Cl::Thread(std::thread::spawn(move || run_sync_client(ctx, cs2, hold, h2, ls))))
            }
        }
    }
    drop(refs);

    // main phase: wait for the clients (bounded)
    let budget_ms = sc.time_budget() + LATE_SLACK_MS + 5_000;
    let deadline = Instant::now() + Duration::from_millis(budget_ms);
    let mut holdings: Vec<Option<Holdings>> = vec![];
    for (c, cl) in clients.into_iter().enumerate() {
        match cl {
            Cl::Task(t) => {
                let left = deadline.saturating_duration_since(Instant::now());
                let r = rt.block_on(async { tokio::time::timeout(left, t).await });
                match r {
                    Ok(Ok(h)) => holdings.push(Some(h)),
                    Ok(Err(e)) => {
                        let msg = if e.is_panic() { panic_message(&*e.into_panic()) } else { "cancelled".into() };
                        rec.rec(K::ClientPanicked { c, msg });
                        holdings.push(None);
                    }
                    Err(_) => {
                        holdings.push(None); // still running: its pending operation is in the trace
                    }
                }
            }
            Cl::Thread(t) => {
                // std threads cannot be joined with a timeout: poll
                let mut done = None;
                loop {
                    if t.is_finished() {
                        done = Some(t.join());
                        break;
                    }
                    if Instant::now() > deadline {
                        break;
                    }
                    std::thread::sleep(Duration::from_millis(1));
                }
                match done {
                    Some(Ok(h)) => holdings.push(Some(h)),
                    Some(Err(p)) => {
                        rec.rec(K::ClientPanicked { c, msg: panic_message(&*p) });
                        holdings.push(None);
                    }
                    None => holdings.push(None),
                }
            }
        }
    }
    rec.rec(K::Phase(1));

    // post-mortem probes through blocking and async API on one handle per actor
    let mut probed = vec![false; n];
    for h in holdings.iter_mut().flatten() {
        for slot in 0..h.strong.len() {
            let Some(s) = &h.strong[slot] else { continue };
            let a = s.a;
            if a >= n || probed[a] {
                continue;
            }
            probed[a] = true;
            let dctx = ClientCtx { c: 9999, src: Src::Driver, world: world.clone(), routing: sc.routing };
            let m = |k: u32, ty: Ty| Msg { id: PROBE_BASE + (a as u32) * 10 + k, ty, steps: vec![], out: Out::Ok, job: None };
            exec_sync(&dctx, h, 0, &Op::Probe { h: slot }, &handle);
            exec_sync(&dctx, h, 1, &Op::Send { h: slot, how: How::BAsk(Some(2000)), msg: m(0, Ty::A) }, &handle);
            exec_sync(&dctx, h, 2, &Op::Send { h: slot, how: How::BTell(Some(2000)), msg: m(1, Ty::B) }, &handle);
            exec_sync(&dctx, h, 3, &Op::Send { h: slot, how: How::AskT(2000), msg: m(2, Ty::B) }, &handle);
        }
    }
    rec.rec(K::Phase(2));

    // epilogue: stop every other actor, drop every handle, wait for the actors
    let keeps = sc.actors.iter().any(|sp| format!("{sp:?}").contains("Keep"));
    for a in 0..n {
        // every other actor is not stopped: it has to end because its last handle goes away
        if a % 2 == 1 && !keeps {
            continue;
        }
        if let Some(r) = world.peer(a) {
            let t = Tracked::new(r, a, &rec);
            let op = rec.new_op();
            rec.rec(K::OpBegin { op, src: Src::Driver, hook: None, a, kind: OpKind::Stop, slot: 0, via: 0 });
            let res = rt.block_on(async { tokio::time::timeout(Duration::from_secs(5), t.inner.stop()).await });
            let res = match res {
                Ok(Ok(())) => Res::Ok,
                Ok(Err(e)) => map_err(&e, t.inner.identity()),
                Err(_) => Res::ErrOther("stop() did not return within 5 s".into()),
            };
            rec.rec(K::OpEnd { op, res });
        }
    }
    drop(holdings);
    let end = Instant::now() + Duration::from_secs(10);
    for w in watchers {
        let left = end.saturating_duration_since(Instant::now());
        let r = rt.block_on(async { tokio::time::timeout(left, w).await });
        if r.is_err() {
            watchdog = true;
        }
    }
    if let Some(nd) = dead_letters() {
        rec.rec(K::DeadLetterCount { n: nd });
    }
    rec.rec(K::Phase(3));
    let evs = rec.take();
    set_current(None);
    rt.shutdown_timeout(Duration::from_millis(200));
    RtResult { out: Outcome { evs, budget: budget_ms }, watchdog }
}

/// C11 supplement: K threads x M spawns released by a barrier; all ids must be distinct.
pub fn id_race(threads: usize, spawns: usize) -> (usize, Vec<u64>) {
    use crate::laws::Dummy;
    let rt = tokio::runtime::Builder::new_multi_thread().worker_threads(2).enable_time().build().expect("runtime");
    let barrier = Arc::new(std::sync::Barrier::new(threads));
    let mut hs = vec![];
    for t in 0..threads {
        let b = barrier.clone();
        let h = rt.handle().clone();
        hs.push(std::thread::spawn(move || {
            let _g = h.enter();
            let mut ids = Vec::with_capacity(spawns);
            let mut keep = Vec::with_capacity(spawns);
            b.wait();
            for i in 0..spawns {
                let (r, jh) = rsactor::spawn::<Dummy>((t * 1000 + i) as u64);
                ids.push(r.identity().id);
                keep.push((r, jh));
            }
            (ids, keep)
        }));
    }
    let mut all = vec![];
    let mut keeps = vec![];
    for h in hs {
        let (ids, keep) = h.join().expect("spawner thread");
        all.extend(ids);
        keeps.push(keep);
    }
    drop(keeps);
    rt.shutdown_timeout(Duration::from_millis(200));
    let mut sorted = all.clone();
    sorted.sort();
    let dups: Vec<u64> = sorted.windows(2).filter(|w| w[0] == w[1]).map(|w| w[0]).collect();
    (all.len(), dups)
}
