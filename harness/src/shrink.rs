//! Structural delta-debugging on the decoded scenario (after proptest has shrunk the tape).
//! Works on the JSON form so that every part of a scenario is covered generically: array elements
//! are removed, numbers lowered, hook outcomes replaced by "Ok". A candidate is kept only if the
//! same property still fails with the same violation kind.

use crate::scenario::Scenario;
use serde_json::Value;

fn paths(v: &Value, cur: &mut Vec<PathSeg>, out: &mut Vec<Vec<PathSeg>>) {
    match v {
        Value::Array(a) => {
            out.push(cur.clone());
            for (i, x) in a.iter().enumerate() {
                cur.push(PathSeg::Idx(i));
                paths(x, cur, out);
                cur.pop();
            }
        }
        Value::Object(o) => {
            for (k, x) in o.iter() {
                cur.push(PathSeg::Key(k.clone()));
                paths(x, cur, out);
                cur.pop();
            }
        }
        Value::Number(_) | Value::String(_) | Value::Bool(_) => out.push(cur.clone()),
        Value::Null => {}
    }
}

#[derive(Clone, Debug, PartialEq)]
enum PathSeg {
    Idx(usize),
    Key(String),
}

fn get_mut<'a>(v: &'a mut Value, p: &[PathSeg]) -> Option<&'a mut Value> {
    let mut cur = v;
    for s in p {
        cur = match s {
            PathSeg::Idx(i) => cur.get_mut(*i)?,
            PathSeg::Key(k) => cur.get_mut(k.as_str())?,
        };
    }
    Some(cur)
}

fn try_candidate(cand: &Value, pred: &mut dyn FnMut(&Scenario) -> bool) -> Option<Scenario> {
    let sc: Scenario = serde_json::from_value(cand.clone()).ok()?;
    if !sc.well_formed() {
        return None;
    }
    if pred(&sc) {
        Some(sc)
    } else {
        None
    }
}

/// Returns the smallest scenario found for which `pred` holds. `pred(sc)` must hold initially.
pub fn shrink(sc: &Scenario, pred: &mut dyn FnMut(&Scenario) -> bool, max_tests: usize) -> (Scenario, usize) {
    // shrinking is a convenience, never worth a watchdog: it also stops after a wall-clock budget
    // (cases with real sleeps or real threads can take a second each)
    let t0 = std::time::Instant::now();
    let budget = std::time::Duration::from_secs(120);
    let mut max_tests = max_tests;
    let mut best = serde_json::to_value(sc).unwrap();
    let mut tests = 0usize;
    let mut progress = true;
    while progress && tests < max_tests {
        if t0.elapsed() > budget {
            max_tests = tests;
        }
        progress = false;
        let mut ps = vec![];
        paths(&best, &mut vec![], &mut ps);
        // larger structures first: arrays near the root
        ps.sort_by_key(|p| p.len());
        for p in ps {
            if tests >= max_tests || t0.elapsed() > budget {
                break;
            }
            let mut cur = best.clone();
            let Some(node) = get_mut(&mut cur, &p) else { continue };
            match node.clone() {
                Value::Array(a) => {
                    // try to drop elements, last first
                    let mut i = a.len();
                    while i > 0 {
                        i -= 1;
                        if tests >= max_tests {
                            break;
                        }
                        let mut cand = best.clone();
                        let Some(Value::Array(arr)) = get_mut(&mut cand, &p) else { break };
                        if i >= arr.len() {
                            continue;
                        }
                        arr.remove(i);
                        tests += 1;
                        if try_candidate(&cand, pred).is_some() {
                            best = cand;
                            progress = true;
                        }
                    }
                }
                Value::Number(n) => {
                    // message ids are names, not magnitudes
                    if matches!(p.last(), Some(PathSeg::Key(k)) if k == "id") {
                        continue;
                    }
                    if let Some(x) = n.as_u64() {
                        for c in [0u64, x / 2, x.saturating_sub(2), x.saturating_sub(1)] {
                            if c >= x || tests >= max_tests {
                                continue;
                            }
                            // keep delays even where they were even
                            let c = if x % 2 == 0 { c & !1 } else { c };
                            if c >= x {
                                continue;
                            }
                            let mut cand = best.clone();
                            if let Some(nd) = get_mut(&mut cand, &p) {
                                *nd = Value::from(c);
                            }
                            tests += 1;
                            if try_candidate(&cand, pred).is_some() {
                                best = cand;
                                progress = true;
                                break;
                            }
                        }
                    }
                }
                Value::String(s) => {
                    let last_key = p.iter().rev().find_map(|s| if let PathSeg::Key(k) = s { Some(k.clone()) } else { None });
                    let simpler: &[&str] = match (last_key.as_deref(), s.as_str()) {
                        (Some("out"), "Ok") => &[],
                        (Some("out"), _) => &["Ok"],
                        (Some("run_tail"), "Pend") => &["Done"],
                        (Some("routing"), "Mixed") => &["Direct"],
                        (Some("how"), "Ask") => &["Tell"],
                        (Some("ty"), "B") => &["A"],
                        _ => &[],
                    };
                    for c in simpler {
                        let mut cand = best.clone();
                        if let Some(nd) = get_mut(&mut cand, &p) {
                            *nd = Value::from(*c);
                        }
                        tests += 1;
                        if try_candidate(&cand, pred).is_some() {
                            best = cand;
                            progress = true;
                            break;
                        }
                    }
                }
                Value::Bool(true) => {
                    let mut cand = best.clone();
                    if let Some(nd) = get_mut(&mut cand, &p) {
                        *nd = Value::from(false);
                    }
                    tests += 1;
                    if try_candidate(&cand, pred).is_some() {
                        best = cand;
                        progress = true;
                    }
                }
                _ => {}
            }
        }
    }
    (serde_json::from_value(best).unwrap_or_else(|_| sc.clone()), tests)
}
