//! Deterministic virtual-time execution of a scenario on a paused current_thread runtime.

use crate::actor::*;
use crate::client::*;
use crate::scenario::*;
use crate::trace::*;
use rsactor::{ActorRef, ActorResult};
use std::panic::AssertUnwindSafe;
use std::sync::{Arc, Mutex};
use std::time::Duration;

pub struct Outcome {
    pub evs: Vec<Ev>,
    pub budget: u64,
}

#[derive(Clone, Copy, Default)]
pub struct RunOpts {
    pub log_polls: bool,
}

pub const PROBE_BASE: u32 = 1_000_000;

pub fn graph_edges() -> Option<Vec<(u64, u64)>> {
    #[cfg(all(rsactor_verif, feature = "deadlock-detection"))]
    {
        let mut e = rsactor::__verif_wait_for_edges();
        e.sort();
        Some(e)
    }
    #[cfg(not(all(rsactor_verif, feature = "deadlock-detection")))]
    {
        None
    }
}

pub fn dead_letters() -> Option<u64> {
    #[cfg(feature = "test-utils")]
    {
        Some(rsactor::dead_letter_count())
    }
    #[cfg(not(feature = "test-utils"))]
    {
        None
    }
}

pub async fn watch(
    a: usize,
    jh: tokio::task::JoinHandle<ActorResult<SimActor>>,
    world: Arc<World>,
) {
    match jh.await {
        Ok(res) => {
            for v in crate::laws::check_real(&res) {
                world.rec.rec(K::Anomaly { prop: "C05", what: v });
            }
            let (jr, actor) = match res {
                ActorResult::Completed { actor, killed } => (JoinRes::Completed { killed }, Some(actor)),
                ActorResult::Failed { actor, error, phase, killed } => (
                    JoinRes::Failed {
                        phase: format!("{phase}"),
                        killed,
                        has_actor: actor.is_some(),
                        err_tag: error.tag,
                        err_hook: error.hook.to_string(),
                    },
                    actor,
                ),
            };
            let state = actor.as_ref().map(|x| x.st.clone());
            world.rec.rec(K::Joined { a, res: jr, state });
            drop(actor);
        }
        Err(e) => {
            if e.is_panic() {
                let p = e.into_panic();
                world.rec.rec(K::Joined { a, res: JoinRes::Panic(panic_message(&*p)), state: None });
            } else {
                world.rec.rec(K::Joined { a, res: JoinRes::Cancelled, state: None });
            }
        }
    }
}

pub fn spawn_actor(
    i: usize,
    spec: &ActorSpec,
    world: &Arc<World>,
) -> Option<(ActorRef<SimActor>, tokio::task::JoinHandle<ActorResult<SimActor>>)> {
    let w2 = world.clone();
    let cap = spec.cap;
    let spawned = std::panic::catch_unwind(AssertUnwindSafe(move || {
        if cap == 0 {
            rsactor::spawn::<SimActor>((i, w2))
        } else {
            rsactor::spawn_with_mailbox_capacity::<SimActor>((i, w2), cap as usize)
        }
    }));
    match spawned {
        Ok((r, jh)) => {
            let id = r.identity();
            world.rec.rec(K::Spawned { a: i, id: id.id, ty: id.type_name.to_string(), cap });
            world.peers.lock().unwrap()[i] = Some(ActorRef::downgrade(&r));
            Some((r, jh))
        }
        Err(p) => {
            world.rec.rec(K::SpawnPanicked { a: i, msg: panic_message(&*p) });
            None
        }
    }
}

pub fn run_sim(sc: &Scenario, opts: RunOpts) -> Outcome {
    let rt = tokio::runtime::Builder::new_current_thread()
        .enable_time()
        .start_paused(true)
        .build()
        .expect("runtime");
    let budget = (sc.time_budget() + 60) & !1;
    let evs = rt.block_on(drive(sc, opts, budget));
    set_current(None);
    drop(rt);
    Outcome { evs, budget }
}

fn ms(n: u64) -> Duration {
    Duration::from_millis(n)
}

async fn drive(sc: &Scenario, opts: RunOpts, budget: u64) -> Vec<Ev> {
    let t0 = tokio::time::Instant::now();
    let rec = Recorder::new(Clock::Virtual(t0), opts.log_polls);
    set_current(Some(rec.clone()));
    let n0 = sc.actors.len();
    let n = n0 + sc.late_spawn as usize;
    let mut specs = sc.actors.clone();
    if sc.late_spawn {
        specs.push(ActorSpec::default());
    }
    let world = Arc::new(World {
        rec: rec.clone(),
        specs,
        peers: Mutex::new((0..n).map(|_| None).collect()),
        us_per_ms: 1000,
    });
    if let Some(n) = dead_letters() {
        rec.rec(K::DeadLetterCount { n });
    }

    // --- spawn actors (no await until all clients are spawned too) ---
    let mut refs: Vec<Option<Tracked<ActorRef<SimActor>>>> = vec![];
    let mut watchers = vec![];
    for (i, spec) in sc.actors.iter().enumerate() {
        match spawn_actor(i, spec, &world) {
            Some((r, jh)) => {
                refs.push(Some(Tracked::new(r, i, &rec)));
                watchers.push(tokio::spawn(watch(i, jh, world.clone())));
            }
            None => refs.push(None),
        }
    }

    // --- clients ---
    let mut client_tasks = vec![];
    for (c, cs) in sc.clients.iter().enumerate() {
        let mut hold = Holdings::default();
        for (slot, a) in cs.init.iter().enumerate() {
            match refs.get(*a).and_then(|r| r.as_ref()) {
                Some(r) => hold.strong.push(Some(Tracked::new(
                    initial_handle(&r.inner, sc.routing, c, slot),
                    *a,
                    &rec,
                ))),
                None => hold.strong.push(None),
            }
        }
        let ctx = ClientCtx { c, src: Src::Client(c), world: world.clone(), routing: sc.routing };
        client_tasks.push(Some(tokio::spawn(run_client(ctx, cs.clone(), hold))));
    }
    drop(refs);

    // --- sampler (odd milliseconds; everything else happens on even ones) ---
    let sampler = if sc.sampler {
        let rec2 = rec.clone();
        let until = budget;
        Some(tokio::spawn(async move {
            let mut t = 1u64;
            while t < until {
                tokio::time::sleep_until(t0 + ms(t)).await;
                if let Some(edges) = graph_edges() {
                    rec2.rec(K::Graph { edges });
                }
                t += 2;
            }
        }))
    } else {
        None
    };

    // --- main phase ---
    tokio::time::sleep_until(t0 + ms(budget)).await;
    if let Some(edges) = graph_edges() {
        rec.rec(K::Graph { edges });
    }
    rec.rec(K::Phase(1));
    if let Some(s) = sampler {
        s.abort();
    }

    // --- post-mortem probes ---
    let mut holdings: Vec<Option<Holdings>> = vec![];
    for (c, t) in client_tasks.iter_mut().enumerate() {
        let fin = t.as_ref().map(|t| t.is_finished()).unwrap_or(false);
        if fin {
            match t.take().unwrap().await {
                Ok(h) => holdings.push(Some(h)),
                Err(e) => {
                    let msg = if e.is_panic() { panic_message(&*e.into_panic()) } else { "cancelled".into() };
                    rec.rec(K::ClientPanicked { c, msg });
                    holdings.push(None);
                }
            }
        } else {
            holdings.push(None);
        }
    }
    let dctx = ClientCtx { c: 9999, src: Src::Driver, world: world.clone(), routing: sc.routing };
    // C12: a fresh actor spawned after everything else happened must work and get a fresh id
    if sc.late_spawn {
        if let Some((r, jh)) = spawn_actor(n0, &ActorSpec::default(), &world) {
            watchers.push(tokio::spawn(watch(n0, jh, world.clone())));
            let mut h = Holdings::default();
            h.strong.push(Some(Tracked::new(Strong::Direct(r), n0, &rec)));
            holdings.push(Some(h));
        }
    }
    let mut probe_tasks = vec![];
    let mut probed_actor = vec![false; n];
    for h in holdings.iter_mut().flatten() {
        let mut opi = 0usize;
        for slot in 0..h.strong.len() {
            if h.strong[slot].is_some() {
                dctx.exec(h, opi, &Op::Probe { h: slot }).await;
                opi += 1;
            }
        }
        for slot in 0..h.weak.len() {
            if h.weak[slot].is_some() {
                dctx.exec(h, opi, &Op::ProbeWeak { w: slot }).await;
                opi += 1;
            }
        }
        if cfg!(feature = "metrics") {
            for slot in 0..h.strong.len() {
                if h.strong[slot].is_some() {
                    dctx.exec(h, opi, &Op::Metrics { h: slot }).await;
                    opi += 1;
                }
            }
            for slot in 0..h.weak.len() {
                if h.weak[slot].is_some() {
                    dctx.exec(h, opi, &Op::MetricsWeak { w: slot }).await;
                    opi += 1;
                }
            }
        }
    }
    // message probes: one ask and one tell per actor through some held handle; each in its own
    // task so that a probe that never returns cannot stall the driver
    let mut moved: Vec<Option<Holdings>> = vec![];
    for h in holdings.into_iter() {
        match h {
            None => moved.push(None),
            Some(h) => {
                let mut plan = vec![];
                for slot in 0..h.strong.len() {
                    if let Some(s) = &h.strong[slot] {
                        if s.a < n && !probed_actor[s.a] {
                            probed_actor[s.a] = true;
                            plan.push((slot, s.a));
                        }
                    }
                }
                if plan.is_empty() {
                    moved.push(Some(h));
                } else {
                    let ctx = ClientCtx { c: 9999, src: Src::Driver, world: world.clone(), routing: sc.routing };
                    let idx = moved.len();
                    moved.push(None);
                    probe_tasks.push((
                        idx,
                        tokio::spawn(async move {
                            let mut h = h;
                            for (k, (slot, a)) in plan.into_iter().enumerate() {
                                let ask = Msg {
                                    id: PROBE_BASE + (a as u32) * 10,
                                    ty: Ty::A,
                                    steps: vec![],
                                    out: Out::Ok,
                                    job: None,
                                };
                                let tell = Msg { id: PROBE_BASE + (a as u32) * 10 + 1, ty: Ty::B, ..ask.clone() };
                                ctx.exec(&mut h, 100 + 2 * k, &Op::Send { h: slot, how: How::AskT(500), msg: ask }).await;
                                ctx.exec(&mut h, 101 + 2 * k, &Op::Send { h: slot, how: How::TellT(500), msg: tell }).await;
                            }
                            h
                        }),
                    ));
                }
            }
        }
    }
    tokio::time::sleep(ms(2000)).await;
    for (idx, t) in probe_tasks {
        if t.is_finished() {
            if let Ok(h) = t.await {
                moved[idx] = Some(h);
            }
        } else {
            t.abort();
        }
    }
    if let Some(edges) = graph_edges() {
        rec.rec(K::Graph { edges });
    }
    rec.rec(K::Phase(2));

    // --- epilogue: stop everything that is still alive, drop every handle ---
    let mut stop_tasks = vec![];
    for a in 0..n {
        if let Some(r) = world.peer(a) {
            let w = world.clone();
            stop_tasks.push(tokio::spawn(async move {
                let t = Tracked::new(r, a, &w.rec);
                let op = w.rec.new_op();
                w.rec.rec(K::OpBegin { op, src: Src::Driver, hook: None, a, kind: OpKind::Stop, slot: 0, via: 0 });
                let res = match t.inner.stop().await {
                    Ok(()) => Res::Ok,
                    Err(e) => map_err(&e, t.inner.identity()),
                };
                w.rec.rec(K::OpEnd { op, res });
            }));
        }
    }
    tokio::time::sleep(ms(10)).await;
    drop(moved);
    for t in client_tasks.into_iter().flatten() {
        t.abort();
    }
    tokio::time::sleep(ms(budget + 2000)).await;
    for t in stop_tasks {
        t.abort();
    }
    for w in watchers {
        w.abort();
    }
    tokio::task::yield_now().await;
    if let Some(edges) = graph_edges() {
        rec.rec(K::Graph { edges });
    }
    if let Some(n) = dead_letters() {
        rec.rec(K::DeadLetterCount { n });
    }
    rec.rec(K::Phase(3));
    rec.take()
}
