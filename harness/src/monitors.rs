//! One pure oracle per property over (scenario, trace). Each function encodes exactly its listed
//! property, with the property's "unless / provided" clauses as preconditions.

use crate::actor::job_value;
use crate::scenario::*;
use crate::trace::*;
use crate::view::*;

fn cap_of(v: &View, a: usize) -> usize {
    let c = v.actors[a].cap;
    if c == 0 {
        32
    } else {
        c as usize
    }
}

/// Upper bound of the number of items that can be in actor a's mailbox, or waiting to get in,
/// just before event `seq`: every tell/stop begun and not failed whose message has not been taken,
/// every ask begun whose message has not been taken and that did not fail with Send. If this is
/// below the capacity, a send that begins at `seq` finds a free slot and is accepted at once.
fn occupancy_ub(v: &View, a: usize, seq: u64) -> usize {
    let mut n = 0;
    for o in v.ops.iter().filter(|o| o.a == a && o.b_seq < seq && !o.skipped()) {
        match &o.kind {
            OpKind::Send { how, mid, .. } => {
                let taken = v.handlers.get(mid).map(|h| h[0].b_seq < seq).unwrap_or(false);
                if taken {
                    continue;
                }
                let ended = o.e_seq.map(|e| e < seq).unwrap_or(false);
                let gone = if how.is_tell() {
                    ended && !matches!(o.res, Some(Res::Ok))
                } else {
                    ended && matches!(o.res, Some(Res::ErrSend) | Some(Res::Panicked(_)))
                };
                if !gone {
                    n += 1;
                }
            }
            OpKind::Stop => {
                let ended = o.e_seq.map(|e| e < seq).unwrap_or(false);
                if !(ended && !matches!(o.res, Some(Res::Ok))) {
                    n += 1;
                }
            }
            _ => {}
        }
    }
    n
}

/// seq of the first stop() *call* on actor a (from anyone, any phase)
fn first_stop_call(v: &View, a: usize) -> Option<u64> {
    v.ops.iter().filter(|o| o.a == a && o.kind == OpKind::Stop && !o.skipped()).map(|o| o.b_seq).min()
}

/// Is actor a inside a non-cancellable hook (on_start, handler, on_stop) just before `seq`?
fn busy_at(v: &View, a: usize, seq: u64) -> bool {
    let mut busy = false;
    for (s, _, h) in &v.actors[a].hooks {
        if *s >= seq {
            break;
        }
        match h {
            HookEv::StartBegin | HookEv::HBegin(_) | HookEv::StopBegin(_) => busy = true,
            HookEv::StartEnd(..) | HookEv::HEnd(..) | HookEv::StopEnd(..) => busy = false,
            _ => {}
        }
    }
    busy
}

/// A hook of actor a was entered and never finished within the trace (e.g. an ask cycle that the
/// optional detection does not see, such as one closed through concurrent asks of one hook). Every
/// liveness obligation of the properties is conditional on the running hook finishing.
fn stuck(v: &View, a: usize) -> bool {
    busy_at(v, a, u64::MAX)
}

// ------------------------------------------------------------------------------------------
// C01 — accepted exactly once, rejected never
// ------------------------------------------------------------------------------------------
/// the parts of C01 that are sound under true concurrency: (a), (b) and (c) restricted to stop()
pub fn c01_core(v: &View) -> Vec<Violation> {
    c01_abc(v, false)
}

fn c01_abc(v: &View, use_drop: bool) -> Vec<Violation> {
    let mut out = vec![];
    // (a) at most once
    for (mid, hs) in &v.handlers {
        if hs.len() > 1 {
            out.push(viol("C01", "handled-twice", format!("message {mid} entered a handler {} times", hs.len())));
        }
    }
    // (b) rejected never
    for o in v.sends() {
        let (how, mid, _) = o.send().unwrap();
        let rejected = match (&o.res, how.is_tell()) {
            (Some(Res::ErrSend), _) => true,
            (Some(Res::ErrTimeout), true) => true,
            (Some(Res::ErrRecv), true) => true, // a tell has no reply to lose: any Err means not delivered
            _ => false,
        };
        if rejected && v.handled_count(mid) > 0 {
            out.push(viol(
                "C01",
                "rejected-but-handled",
                format!("{how:?} of message {mid} returned {:?} yet the message was handled", o.res),
            ));
        }
    }
    // (c) accepted before stop()/last drop on a healthy actor => handled exactly once before on_stop
    for a in 0..v.actors.len() {
        let av = &v.actors[a];
        if !av.spawned || !av.started_ok() || v.crashed_or_killed(a) {
            continue;
        }
        let stop_call = first_stop_call(v, a).unwrap_or(u64::MAX);
        let zero = if use_drop { av.first_zero().unwrap_or(u64::MAX) } else { u64::MAX };
        let limit = stop_call.min(zero);
        let end = v.phase_seq[2].unwrap_or(u64::MAX);
        for o in v.ops.iter().filter(|o| o.a == a) {
            let Some((how, mid, _)) = o.send() else { continue };
            let accepted = match (&o.res, how.is_tell()) {
                (Some(Res::Ok), true) => true,
                (Some(Res::Rep { .. }), false) | (Some(Res::Job(_)), false) | (Some(Res::Ok), false) => true,
                _ => false,
            };
            // an ask that gave up (timeout) is still an accepted message if its envelope entered the
            // mailbox - which is certain when a slot was free at the moment the call began
            // (single-threaded simulator only: `use_drop` is false on the real-thread engine)
            let accepted_at_begin = use_drop
                && !how.is_tell()
                && !how.is_blocking()
                && matches!(o.res, Some(Res::ErrTimeout) | Some(Res::Abandoned))
                && o.b_seq < limit
                && o.b_seq > av.start_begin_seq().unwrap_or(u64::MAX)
                && occupancy_ub(v, a, o.b_seq) < cap_of(v, a);
            if !(accepted && o.ended_before(limit)) && !accepted_at_begin {
                continue;
            }
            let n = v.handled_count(mid);
            if n == 0 {
                // the trace ran to the end of the epilogue: the actor had every opportunity
                if v.phase_seq[2].is_some() && !stuck(v, a) {
                    out.push(viol(
                        "C01",
                        "accepted-never-handled",
                        format!("{how:?} of message {mid} to actor {a} returned {:?} at seq {} (accepted before any stop()/last drop) but was never handled", o.res, o.e_seq.unwrap()),
                    ));
                }
            } else if let Some((sb, _, _)) = av.stop_begin {
                let hb = v.handlers[&mid][0].b_seq;
                if hb > sb && hb < end {
                    out.push(viol(
                        "C01",
                        "handled-after-on-stop",
                        format!("message {mid} accepted before stop/drop was handled after on_stop began on actor {a}"),
                    ));
                }
            }
        }
    }
    out
}

pub fn c01(v: &View) -> Vec<Violation> {
    let mut out = c01_abc(v, true);
    // (d) at quiescence a live idle actor has no client operation pending on it
    if let Some(h) = v.phase_seq[0] {
        for o in v.ops.iter().filter(|o| o.b_seq < h && o.a < v.actors.len()) {
            if o.send().is_none() && o.kind != OpKind::Stop {
                continue;
            }
            let pending = o.e_seq.map(|e| e > h).unwrap_or(true);
            if !pending || !matches!(o.src, Src::Client(_)) {
                continue;
            }
            let av = &v.actors[o.a];
            let alive = av.spawned && av.started_ok() && av.end_begin_seq().map(|s| s > h).unwrap_or(true);
            if alive && !busy_at(v, o.a, h) {
                // an AskJoin may legitimately wait for its job; jobs are finite and done by now
                out.push(viol(
                    "C01",
                    "pending-on-idle-actor",
                    format!("operation {:?} on live idle actor {} still pending at quiescence", o.kind, o.a),
                ));
            }
        }
    }
    out
}

pub fn c01_labels(v: &View, l: &mut Vec<&'static str>) {
    let mut waited = false;
    let mut timed_out = false;
    for o in v.sends() {
        if let (Some(e), true) = (o.e_t, o.send().unwrap().0.is_tell()) {
            if e > o.b_t && matches!(o.res, Some(Res::Ok)) {
                waited = true;
            }
        }
        if matches!(o.res, Some(Res::ErrTimeout)) {
            timed_out = true;
        }
    }
    if waited {
        l.push("tell_waited_for_slot");
    }
    if timed_out {
        l.push("op_timed_out");
    }
    for a in 0..v.actors.len() {
        let av = &v.actors[a];
        if let Some(z) = av.first_zero() {
            if z < v.horizon() {
                // messages accepted and not yet handled at z
                let queued = v
                    .ops
                    .iter()
                    .filter(|o| o.a == a && o.send().map(|s| s.0.is_tell()).unwrap_or(false))
                    .filter(|o| matches!(o.res, Some(Res::Ok)) && o.ended_before(z))
                    .filter(|o| {
                        let mid = o.send().unwrap().1;
                        v.handlers.get(&mid).map(|h| h[0].b_seq > z).unwrap_or(true)
                    })
                    .count();
                if queued >= 1 {
                    l.push("last_ref_dropped_with_queue");
                }
            }
        }
        if let Some(sc) = first_stop_call(v, a) {
            if sc < v.horizon() {
                let pending = v
                    .ops
                    .iter()
                    .any(|o| o.a == a && o.send().is_some() && o.b_seq < sc && o.e_seq.map(|e| e > sc).unwrap_or(true));
                if pending {
                    l.push("stop_while_sender_pending");
                }
            }
        }
    }
}

// ------------------------------------------------------------------------------------------
// C02 — handling order = acceptance order
// ------------------------------------------------------------------------------------------
pub fn c02(v: &View) -> Vec<Violation> {
    let mut out = vec![];
    for a in 0..v.actors.len() {
        // handled sends on this actor: (op begin, op end, handler begin, mid)
        let mut hs: Vec<(u64, u64, u64, u32)> = vec![];
        for o in v.ops.iter().filter(|o| o.a == a) {
            let Some((_, mid, _)) = o.send() else { continue };
            if let Some(h) = v.handlers.get(&mid) {
                if h[0].a == a {
                    hs.push((o.b_seq, o.e_seq.unwrap_or(u64::MAX), h[0].b_seq, mid));
                }
            }
        }
        for x in &hs {
            for y in &hs {
                if x.1 < y.0 && x.2 > y.2 {
                    out.push(viol(
                        "C02",
                        "order-inversion",
                        format!(
                            "actor {a}: send of message {} completed (seq {}) before send of message {} began (seq {}), but {} was handled first",
                            x.3, x.1, y.3, y.0, y.3
                        ),
                    ));
                }
            }
        }
        // nothing whose send began after an accepted stop() returned is ever handled
        for st in v.ops.iter().filter(|o| o.a == a && o.kind == OpKind::Stop && matches!(o.res, Some(Res::Ok))) {
            let s = st.e_seq.unwrap();
            for o in v.ops.iter().filter(|o| o.a == a && o.b_seq > s) {
                if let Some((_, mid, _)) = o.send() {
                    if v.handled_count(mid) > 0 {
                        out.push(viol(
                            "C02",
                            "handled-after-stop-returned",
                            format!("actor {a}: message {mid} was sent after stop() had returned (seq {s}) and was handled"),
                        ));
                    }
                }
            }
        }
        // everything accepted before stop() was called is handled before on_stop: C01(c) states the
        // same obligation; it is re-checked here for tells so that C02 stands alone.
        let av = &v.actors[a];
        if av.spawned && av.started_ok() && !v.crashed_or_killed(a) {
            if let (Some(sc), Some((sb, _, _))) = (first_stop_call(v, a), av.stop_begin) {
                for o in v.ops.iter().filter(|o| o.a == a && o.ended_before(sc)) {
                    if let Some((how, mid, _)) = o.send() {
                        if how.is_tell() && matches!(o.res, Some(Res::Ok)) {
                            let ok = v.handlers.get(&mid).map(|h| h[0].b_seq < sb).unwrap_or(false);
                            if !ok && v.phase_seq[2].is_some() {
                                out.push(viol(
                                    "C02",
                                    "accepted-before-stop-not-handled-before-on-stop",
                                    format!("actor {a}: tell of message {mid} returned Ok before stop() was called but was not handled before on_stop"),
                                ));
                            }
                        }
                    }
                }
            }
        }
    }
    out
}

pub fn c02_labels(v: &View, l: &mut Vec<&'static str>) {
    // >= 2 senders simultaneously pending on a full mailbox
    for a in 0..v.actors.len() {
        let tells: Vec<&OpRec> = v
            .ops
            .iter()
            .filter(|o| o.a == a && o.send().map(|s| s.0.is_tell()).unwrap_or(false) && o.e_t.map(|e| e > o.b_t).unwrap_or(true))
            .collect();
        let mut overlap = false;
        for x in &tells {
            for y in &tells {
                if x.op != y.op && x.b_seq < y.b_seq && x.e_seq.map(|e| e > y.b_seq).unwrap_or(true) {
                    overlap = true;
                }
            }
        }
        if overlap {
            l.push("two_senders_waiting_for_slot");
        }
        let mut per_src: std::collections::HashMap<Src, (bool, bool)> = Default::default();
        for o in v.ops.iter().filter(|o| o.a == a) {
            if let Some((how, mid, _)) = o.send() {
                if v.handled_count(mid) > 0 {
                    let e = per_src.entry(o.src).or_default();
                    if how.is_tell() {
                        e.0 = true
                    } else {
                        e.1 = true
                    }
                }
            }
        }
        if per_src.values().any(|e| e.0 && e.1) {
            l.push("one_sender_ask_and_tell_handled");
        }
        if let Some(sc) = first_stop_call(v, a) {
            if v.ops.iter().any(|o| o.a == a && o.send().is_some() && o.b_seq < sc && o.e_seq.map(|e| e > sc).unwrap_or(true)) {
                l.push("send_racing_stop");
            }
        }
    }
}

// ------------------------------------------------------------------------------------------
// C03 — reply integrity; ask never hangs on a dead actor
// ------------------------------------------------------------------------------------------
/// C03 (a): reply integrity (sound under any interleaving)
pub fn c03_replies(v: &View) -> Vec<Violation> {
    let mut out = vec![];
    for o in v.sends() {
        let (how, mid, ty) = o.send().unwrap();
        match &o.res {
            Some(Res::Rep { id, nonce, err }) => {
                let h = v.handlers.get(&mid).and_then(|h| {
                    h.iter().find(|h| h.nonce == *nonce && h.e_seq.map(|e| e < o.e_seq.unwrap()).unwrap_or(false))
                });
                match h {
                    None => out.push(viol(
                        "C03",
                        "reply-without-handler",
                        format!("{how:?} of message {mid} returned Ok(id={id},nonce={nonce}) but no completed handler execution of message {mid} produced that value"),
                    )),
                    Some(h) => {
                        if *id != mid || h.a != o.a || *err != (h.out == Some(Out::Err)) {
                            out.push(viol(
                                "C03",
                                "crossed-reply",
                                format!("{how:?} of message {mid} to actor {} returned the reply (id={id}, err={err}) of handler {:?}", o.a, h),
                            ));
                        }
                    }
                }
                if how.is_tell() {
                    out.push(viol("C03", "tell-returned-reply", format!("tell of {mid} returned a reply")));
                }
            }
            Some(Res::Job(val)) => {
                let spec = v.msgs.get(&mid).and_then(|m| m.job);
                let job_done = v.evs.iter().any(|e| matches!(&e.k, K::JobEnd { mid: m } if *m == mid) && e.seq < o.e_seq.unwrap());
                if *val != job_value(mid) || !job_done || spec.map(|j| j.out != JobOut::Ok).unwrap_or(true) {
                    out.push(viol(
                        "C03",
                        "ask-join-wrong-output",
                        format!("ask_join of message {mid} returned Ok({val}); job spec {spec:?}, job finished before: {job_done}"),
                    ));
                }
            }
            Some(Res::ErrJoinPanic) | Some(Res::ErrJoinCancelled) => {
                let spec = v.msgs.get(&mid).and_then(|m| m.job);
                let want = match spec.map(|j| j.out) {
                    Some(JobOut::Panic) => Some(Res::ErrJoinPanic),
                    Some(JobOut::Abort) => Some(Res::ErrJoinCancelled),
                    _ => None,
                };
                if want.as_ref() != o.res.as_ref() {
                    out.push(viol(
                        "C03",
                        "ask-join-wrong-error",
                        format!("ask_join of message {mid} returned {:?} but the job was scripted {spec:?}", o.res),
                    ));
                }
            }
            Some(Res::Ok) if how == How::AskJoin && ty == Ty::Job => {
                out.push(viol("C03", "ask-join-no-value", format!("ask_join of {mid} returned no value")));
            }
            _ => {}
        }
        // a join failure must not be swallowed
        if how == How::AskJoin && ty == Ty::Job {
            if let (Some(Res::Job(_)), Some(j)) = (&o.res, v.msgs.get(&mid).and_then(|m| m.job)) {
                if j.out != JobOut::Ok {
                    out.push(viol("C03", "ask-join-swallowed-join-error", format!("ask_join of {mid}: job scripted {:?} yet Ok returned", j.out)));
                }
            }
        }
    }
    out
}

pub fn c03(v: &View) -> Vec<Violation> {
    let mut out = c03_replies(v);
    // (b) no operation pending on an actor whose JoinHandle has resolved
    if let (Some(h1), Some(h2)) = (v.phase_seq[0], v.phase_seq[1]) {
        for o in v.ops.iter().filter(|o| o.a < v.actors.len() && o.b_seq < h1) {
            if o.send().is_none() && o.kind != OpKind::Stop {
                continue;
            }
            if matches!(o.hook, Some(HookId::Run(_))) {
                continue; // on_run futures are cancellable: a missing end is not a hang
            }
            let pending = o.e_seq.map(|e| e > h2).unwrap_or(true);
            if !pending {
                continue;
            }
            // the caller must still be there to observe the end
            let caller_alive = match o.src {
                Src::Actor(c) => v.actors[c].joined_seq().map(|j| j > h2).unwrap_or(true) && v.actors[c].panic_seq.is_none(),
                _ => true,
            };
            if !caller_alive {
                continue;
            }
            if let Some(j) = v.actors[o.a].joined_seq() {
                if j < h1 {
                    out.push(viol(
                        "C03",
                        "hang-on-dead-actor",
                        format!("{:?} on actor {} (ended at seq {j}) never returned", o.kind, o.a),
                    ));
                }
            }
        }
    }
    // (c) every operation begun after the JoinHandle resolved fails, at once
    for o in v.sends() {
        if let Some(j) = v.actors[o.a].joined_seq() {
            if o.b_seq > j {
                let (how, mid, _) = o.send().unwrap();
                let ok = o.res.as_ref().map(|r| r.is_err()).unwrap_or(false) && o.e_t == Some(o.b_t);
                if !ok {
                    out.push(viol(
                        "C03",
                        "send-to-dead-actor-not-failed",
                        format!("{how:?} of message {mid} to ended actor {} returned {:?} (begin t={}, end t={:?})", o.a, o.res, o.b_t, o.e_t),
                    ));
                }
            }
        }
    }
    out
}

pub fn c03_labels(v: &View, l: &mut Vec<&'static str>) {
    for a in 0..v.actors.len() {
        if let Some(end) = v.actors[a].end_begin_seq() {
            let n = v
                .ops
                .iter()
                .filter(|o| o.a == a && o.send().map(|s| s.0.is_ask()).unwrap_or(false))
                .filter(|o| o.b_seq < end && o.e_seq.map(|e| e > end).unwrap_or(true))
                .count();
            if n >= 2 {
                l.push("two_asks_outstanding_at_end");
            }
            if n >= 1 {
                l.push("ask_outstanding_at_end");
            }
        }
    }
    if v.ops.iter().any(|o| matches!(o.res, Some(Res::ErrJoinPanic) | Some(Res::ErrJoinCancelled))) {
        l.push("ask_join_failing_job");
    }
    if v.ops.iter().any(|o| matches!(o.res, Some(Res::Job(_)))) {
        l.push("ask_join_ok");
    }
}

// ------------------------------------------------------------------------------------------
// C04 — lifecycle hook order
// ------------------------------------------------------------------------------------------
pub fn c04(v: &View) -> Vec<Violation> {
    let mut out = vec![];
    #[derive(PartialEq, Debug, Clone, Copy)]
    enum S {
        Init,
        Starting,
        Running,
        InHandler,
        RunErr,
        Stopping,
        Dead,
    }
    for a in 0..v.actors.len() {
        let av = &v.actors[a];
        if !av.spawned {
            continue;
        }
        let mut s = S::Init;
        for (seq, _, h) in &av.hooks {
            let next = match (s, h) {
                (S::Init, HookEv::StartBegin) => Some(S::Starting),
                (S::Starting, HookEv::StartEnd(Out::Ok, _)) => Some(S::Running),
                (S::Starting, HookEv::StartEnd(_, _)) => Some(S::Dead),
                (S::Running, HookEv::HBegin(_)) => Some(S::InHandler),
                (S::InHandler, HookEv::HEnd(_, Out::Panic)) => Some(S::Dead),
                (S::InHandler, HookEv::HEnd(_, _)) => Some(S::Running),
                (S::Running, HookEv::RunBegin(_)) | (S::Running, HookEv::RunStep(..)) => Some(S::Running),
                (S::Running, HookEv::RunEnd(_, Out::Err, _)) => Some(S::RunErr),
                (S::Running, HookEv::RunEnd(_, Out::Panic, _)) => Some(S::Dead),
                (S::Running, HookEv::RunEnd(..)) => Some(S::Running),
                (S::Running, HookEv::StopBegin(_)) => Some(S::Stopping),
                (S::RunErr, HookEv::StopBegin(false)) => Some(S::Stopping),
                (S::Stopping, HookEv::StopEnd(..)) => Some(S::Dead),
                _ => None,
            };
            match next {
                Some(n) => s = n,
                None => {
                    out.push(viol(
                        "C04",
                        "hook-order",
                        format!("actor {a}: hook event {h:?} at seq {seq} is not allowed in lifecycle state {s:?}"),
                    ));
                    break;
                }
            }
            // a panic inside an in-hook operation (deadlock detection) ends the task as well
            if let Some(p) = av.panic_seq {
                if *seq >= p {
                    s = S::Dead;
                }
            }
        }
        if av.start_begin_count > 1 {
            out.push(viol("C04", "on-start-twice", format!("actor {a}: on_start ran {} times", av.start_begin_count)));
        }
        if av.stop_begin_count > 1 {
            out.push(viol("C04", "on-stop-twice", format!("actor {a}: on_stop ran {} times", av.stop_begin_count)));
        }
        if let Some((jseq, _, jr, _)) = &av.joined {
            let panicked = matches!(jr, JoinRes::Panic(_));
            if !panicked {
                if av.started_ok() {
                    let ok = av.stop_begin_count == 1 && av.stop_end.map(|s| s.0 < *jseq).unwrap_or(false);
                    if !ok {
                        out.push(viol(
                            "C04",
                            "ended-without-on-stop",
                            format!("actor {a} ended with {jr:?} but on_stop ran {} times (completed before the end: {})", av.stop_begin_count, av.stop_end.is_some()),
                        ));
                    }
                } else if av.stop_begin_count != 0 {
                    out.push(viol("C04", "on-stop-after-failed-start", format!("actor {a}: on_stop ran after on_start failed")));
                }
                if av.start_begin_count != 1 {
                    out.push(viol("C04", "ended-without-on-start", format!("actor {a} ended but on_start ran {} times", av.start_begin_count)));
                }
            }
        }
        // killed flag
        if let Some((sb, _, killed)) = av.stop_begin {
            if killed && !v.kill_began_before(a, sb) {
                out.push(viol("C04", "killed-without-kill", format!("actor {a}: on_stop(killed=true) but no kill() call began before it")));
            }
            if !killed {
                // a kill() from another task (or from this actor's on_start / handler) that had
                // returned before on_stop began must have been consumed first (see also C06)
                let k = v.ops.iter().find(|o| {
                    o.a == a
                        && o.kind == OpKind::Kill
                        && matches!(o.res, Some(Res::Ok))
                        && o.ended_before(sb)
                        && !(o.src == Src::Actor(a) && matches!(o.hook, Some(HookId::Run(_)) | Some(HookId::Stop)))
                });
                if let Some(k) = k {
                    out.push(viol(
                        "C04",
                        "kill-not-reported",
                        format!("actor {a}: kill() returned at seq {} before on_stop began at seq {sb}, yet on_stop received killed=false", k.e_seq.unwrap()),
                    ));
                }
            }
        }
    }
    out
}

pub fn c04_labels(v: &View, l: &mut Vec<&'static str>) {
    for a in 0..v.actors.len() {
        let causes: Vec<(u64, u64)> = v
            .ops
            .iter()
            .filter(|o| o.a == a && !o.skipped() && o.phase == 0 && matches!(o.kind, OpKind::Stop | OpKind::Kill))
            .map(|o| (o.b_seq, o.b_t))
            .chain(v.actors[a].first_zero().filter(|z| *z < v.horizon()).map(|z| (z, v.evs[(z - 1) as usize].t)))
            .collect();
        for c in &causes {
            if busy_at(v, a, c.0) {
                l.push("cause_during_hook");
            }
        }
        for x in &causes {
            for y in &causes {
                if x.0 != y.0 && x.1.abs_diff(y.1) <= 2 {
                    l.push("two_causes_within_2ms");
                }
            }
        }
        if v.actors[a].run_err.is_some() {
            l.push("on_run_error");
        }
        if v.actors[a].panic_seq.is_some() {
            l.push("panic");
        }
        if matches!(v.actors[a].start_end, Some((_, _, Out::Err, _))) {
            l.push("on_start_error");
        }
    }
    l.sort();
    l.dedup();
}

// ------------------------------------------------------------------------------------------
// C05 — ActorResult is truthful
// ------------------------------------------------------------------------------------------
pub fn c05(v: &View) -> Vec<Violation> {
    let mut out = vec![];
    for (_, p, what) in &v.anomalies {
        if *p == "C05" {
            out.push(viol("C05", "accessor-law", what.clone()));
        }
    }
    for a in 0..v.actors.len() {
        let av = &v.actors[a];
        let Some((_, _, jr, state)) = &av.joined else { continue };
        let expected: Option<JoinRes> = if av.panic_seq.is_some() {
            None // must be a panic JoinError
        } else if let Some((_, _, out_s, tag)) = av.start_end {
            if out_s == Out::Err {
                Some(JoinRes::Failed { phase: "OnStart".into(), killed: false, has_actor: false, err_tag: tag, err_hook: "start".into() })
            } else if let Some((_, _, rtag)) = av.run_err {
                match av.stop_end {
                    Some((_, _, Out::Ok, _)) => Some(JoinRes::Failed { phase: "OnRun".into(), killed: false, has_actor: true, err_tag: rtag, err_hook: "run".into() }),
                    Some((_, _, Out::Err, _)) => Some(JoinRes::Failed { phase: "OnRunThenOnStop".into(), killed: false, has_actor: true, err_tag: rtag, err_hook: "run".into() }),
                    _ => continue,
                }
            } else {
                let Some((_, _, killed)) = av.stop_begin else { continue };
                match av.stop_end {
                    Some((_, _, Out::Ok, _)) => Some(JoinRes::Completed { killed }),
                    Some((_, _, Out::Err, tag)) => Some(JoinRes::Failed { phase: "OnStop".into(), killed, has_actor: true, err_tag: tag, err_hook: "stop".into() }),
                    _ => continue,
                }
            }
        } else {
            continue;
        };
        match expected {
            None => {
                let want = v.panics_seen.iter().map(|p| p.1.as_str()).collect::<Vec<_>>();
                match jr {
                    JoinRes::Panic(msg) => {
                        // the payload must be the one that was raised inside this actor
                        let ok = want.iter().any(|w| w.starts_with(msg.as_str()));
                        if !ok {
                            out.push(viol("C05", "wrong-panic-payload", format!("actor {a}: JoinError payload {msg:?} is none of the panics raised {want:?}")));
                        }
                    }
                    other => out.push(viol("C05", "panic-reported-as-result", format!("actor {a} panicked but its JoinHandle produced {other:?}"))),
                }
            }
            Some(e) => {
                if *jr != e {
                    out.push(viol("C05", "wrong-result", format!("actor {a}: JoinHandle produced {jr:?}, the hooks that ran imply {e:?}")));
                }
                // the returned instance carries the state left by every hook that ran
                let has_actor = !matches!(e, JoinRes::Failed { has_actor: false, .. });
                match (has_actor, state) {
                    (true, Some(st)) => {
                        let handled: Vec<u32> = av.hooks.iter().filter_map(|h| if let HookEv::HBegin(m) = h.2 { Some(m) } else { None }).collect();
                        let runs = av.hooks.iter().filter(|h| matches!(h.2, HookEv::RunBegin(_))).count() as u32;
                        let stop_seen = av.stop_begin.map(|s| s.2);
                        if st.handled != handled || st.run_invocations != runs || st.stop_seen != stop_seen {
                            out.push(viol(
                                "C05",
                                "stale-actor-state",
                                format!("actor {a}: returned instance has state {st:?}; the trace shows handled={handled:?} runs={runs} stop_seen={stop_seen:?}"),
                            ));
                        }
                    }
                    (false, None) => {}
                    (x, s) => out.push(viol("C05", "actor-presence", format!("actor {a}: instance expected present={x}, got {s:?}"))),
                }
            }
        }
    }
    out
}

// ------------------------------------------------------------------------------------------
// C06 — kill pre-empts the mailbox
// ------------------------------------------------------------------------------------------
pub fn c06(v: &View) -> Vec<Violation> {
    let mut out = vec![];
    for o in v.ops.iter().filter(|o| o.kind == OpKind::Kill && !o.skipped()) {
        if !matches!(o.res, Some(Res::Ok)) {
            out.push(viol("C06", "kill-failed", format!("kill() on actor {} returned {:?}", o.a, o.res)));
        }
        if o.e_t != Some(o.b_t) {
            out.push(viol("C06", "kill-blocked", format!("kill() on actor {} took virtual time", o.a)));
        }
    }
    for a in 0..v.actors.len() {
        let av = &v.actors[a];
        if !av.spawned {
            continue;
        }
        // first kill that returned while the actor had not begun to end
        let k = v
            .ops
            .iter()
            .filter(|o| o.a == a && o.kind == OpKind::Kill && matches!(o.res, Some(Res::Ok)))
            .filter(|o| !(o.src == Src::Actor(a) && matches!(o.hook, Some(HookId::Run(_)) | Some(HookId::Stop))))
            .min_by_key(|o| o.e_seq.unwrap());
        let Some(k) = k else { continue };
        let s = k.e_seq.unwrap();
        if av.end_begin_seq().map(|e| e < s).unwrap_or(false) || av.joined_seq().map(|j| j < s).unwrap_or(false) {
            continue;
        }
        // handler entries after s
        let later: Vec<&(u64, u64, HookEv)> = av.hooks.iter().filter(|h| h.0 > s).collect();
        let entries = later.iter().filter(|h| matches!(h.2, HookEv::HBegin(_))).count();
        if entries > 1 {
            out.push(viol(
                "C06",
                "handlers-after-kill",
                format!("actor {a}: kill() returned at seq {s}; {entries} message handlers were started afterwards"),
            ));
        }
        // on_run body must not progress once a kill has returned (C08 states it; here only the
        // consequences for kill are checked)
        let healthy = av.panic_seq.is_none()
            && !matches!(av.start_end, Some((_, _, Out::Err, _)) | Some((_, _, Out::Panic, _)))
            && av.run_err.is_none();
        if !healthy || v.phase_seq[2].is_none() {
            continue;
        }
        match av.stop_begin {
            None => {
                if av.start_end.is_some() && !stuck(v, a) {
                    out.push(viol("C06", "no-on-stop-after-kill", format!("actor {a}: kill() returned at seq {s} but on_stop never ran")));
                }
            }
            Some((sb, sbt, killed)) => {
                if !killed {
                    out.push(viol("C06", "killed-flag-false", format!("actor {a}: kill() returned at seq {s}, on_stop began at seq {sb} with killed=false")));
                }
                // no idle gap between the kill and on_stop
                let mut ready_t = k.e_t.unwrap();
                // hook in progress at s
                let mut in_progress = false;
                for h in av.hooks.iter().filter(|h| h.0 < s) {
                    match h.2 {
                        HookEv::StartBegin | HookEv::HBegin(_) => in_progress = true,
                        HookEv::StartEnd(..) | HookEv::HEnd(..) => in_progress = false,
                        _ => {}
                    }
                }
                let mut ok = true;
                for h in later.iter().filter(|h| h.0 <= sb) {
                    match h.2 {
                        HookEv::StartEnd(..) | HookEv::HEnd(..) => {
                            ready_t = ready_t.max(h.1);
                            in_progress = false;
                        }
                        HookEv::HBegin(_) => {
                            if h.1 != ready_t || in_progress {
                                ok = false;
                            }
                            in_progress = true;
                        }
                        HookEv::StopBegin(_) => {
                            if sbt != ready_t {
                                ok = false;
                            }
                        }
                        _ => {}
                    }
                }
                if !ok {
                    out.push(viol(
                        "C06",
                        "on-stop-delayed-after-kill",
                        format!("actor {a}: kill() returned at t={}, on_stop(killed) began at t={sbt}, but the hook in progress allowed it at t={ready_t}", k.e_t.unwrap()),
                    ));
                }
                if let Some((_, _, jr, _)) = &av.joined {
                    let rk = match jr {
                        JoinRes::Completed { killed } => Some(*killed),
                        JoinRes::Failed { killed, .. } => Some(*killed),
                        _ => None,
                    };
                    if rk == Some(false) {
                        out.push(viol("C06", "result-not-killed", format!("actor {a}: killed, but its result reports killed=false: {jr:?}")));
                    }
                }
            }
        }
        // asks left in the mailbox fail - once the hook in progress has finished: a kill takes
        // effect between hooks, so an actor whose running hook never returns (an ask cycle the
        // optional detection does not see) never gets to fail them
        if stuck(v, a) {
            continue;
        }
        if let Some(h2) = v.phase_seq[1] {
            for o in v.ops.iter().filter(|o| o.a == a && o.b_seq < s && matches!(o.src, Src::Client(_))) {
                if let Some((how, mid, _)) = o.send() {
                    if how.is_ask() && v.handled_count(mid) == 0 {
                        // (a caller that abandoned its own call has nothing left to fail)
                        let failed = o.e_seq.map(|e| e < h2).unwrap_or(false) && o.res.as_ref().map(|r| r.is_err() || *r == Res::Abandoned).unwrap_or(false);
                        if !failed {
                            out.push(viol("C06", "queued-ask-not-failed", format!("actor {a}: ask of message {mid} was outstanding at the kill, never handled, and ended as {:?}", o.res)));
                        }
                    }
                }
            }
        }
    }
    out
}

/// the part of C06 that is sound under true concurrency: kill never fails, and after it has
/// returned (stamp) at most one further handler entry is recorded on an actor that had not begun
/// to end
pub fn c06_rt(v: &View) -> Vec<Violation> {
    let mut out = vec![];
    for o in v.ops.iter().filter(|o| o.kind == OpKind::Kill && !o.skipped()) {
        if !matches!(o.res, Some(Res::Ok)) {
            out.push(viol("C06", "kill-failed", format!("kill() on actor {} returned {:?}", o.a, o.res)));
        }
    }
    for a in 0..v.actors.len() {
        let av = &v.actors[a];
        let k = v
            .ops
            .iter()
            .filter(|o| o.a == a && o.kind == OpKind::Kill && matches!(o.res, Some(Res::Ok)) && matches!(o.src, Src::Client(_)))
            .min_by_key(|o| o.e_seq.unwrap());
        let Some(k) = k else { continue };
        let s = k.e_seq.unwrap();
        if av.end_begin_seq().map(|e| e < s).unwrap_or(false) {
            continue;
        }
        let entries = av.hooks.iter().filter(|h| h.0 > s && matches!(h.2, HookEv::HBegin(_))).count();
        if entries > 1 {
            out.push(viol("C06", "handlers-after-kill", format!("actor {a}: kill() returned at stamp {s}; {entries} message handlers were started afterwards")));
        }
        if av.panic_seq.is_none() && av.started_ok() && av.run_err.is_none() && v.phase_seq[2].is_some() {
            if let Some((sb, _, killed)) = av.stop_begin {
                // The loop decides how the actor ends (graceful stop marker taken / mailbox closed,
                // or Terminate consumed) some instants before on_stop's entry is stamped; a kill that
                // lands inside that window meets an actor that has already begun stopping. The
                // decision is made after the previous hook event of this actor, so only a kill
                // that had returned before *that* stamp was certainly visible to the (biased)
                // select that made the decision.
                let prev = av.hooks.iter().filter(|h| h.0 < sb).map(|h| h.0).max();
                if !killed && prev.map(|p| s < p).unwrap_or(false) {
                    out.push(viol("C06", "killed-flag-false", format!("actor {a}: kill() had returned (stamp {s}) before the hook preceding on_stop finished (stamp {}), yet on_stop got killed=false", prev.unwrap())));
                }
            }
        }
    }
    out
}

pub fn c06_labels(v: &View, l: &mut Vec<&'static str>) {
    for a in 0..v.actors.len() {
        for k in v.ops.iter().filter(|o| o.a == a && o.kind == OpKind::Kill && matches!(o.res, Some(Res::Ok)) && o.phase == 0) {
            let s = k.e_seq.unwrap();
            if v.actors[a].end_begin_seq().map(|e| e < s).unwrap_or(false) {
                l.push("kill_on_ending_or_dead_actor");
                continue;
            }
            let queued = v
                .ops
                .iter()
                .filter(|o| o.a == a && o.b_seq < s)
                .filter_map(|o| o.send().map(|x| (o, x)))
                .filter(|(o, (how, mid, _))| {
                    let unhandled = v.handlers.get(mid).map(|h| h[0].b_seq > s).unwrap_or(true);
                    let in_box = if how.is_tell() { matches!(o.res, Some(Res::Ok)) && o.ended_before(s) } else { o.e_seq.map(|e| e > s).unwrap_or(true) };
                    unhandled && in_box
                })
                .count();
            if queued >= 2 {
                l.push("kill_with_queue>=2");
            } else if queued == 1 {
                l.push("kill_with_queue=1");
            }
            if busy_at(v, a, s) {
                l.push("kill_during_hook");
            }
        }
    }
}

// ------------------------------------------------------------------------------------------
// C07 — ends when stopped / unreferenced, and only then
// ------------------------------------------------------------------------------------------
pub fn c07(v: &View) -> Vec<Violation> {
    let mut out = vec![];
    let Some(h) = v.phase_seq[0] else { return out };
    for a in 0..v.actors.len() {
        let av = &v.actors[a];
        if !av.spawned || av.start_end.is_none() || av.spawn_seq > h {
            continue;
        }
        let healthy = av.started_ok() && !v.kill_began_before(a, h) && av.panic_seq.map(|p| p > h).unwrap_or(true) && av.run_err.map(|r| r.0 > h).unwrap_or(true);
        if !healthy {
            continue;
        }
        let count_at_h = av.strong_at(h);
        let stop_accepted = v.ops.iter().any(|o| o.a == a && o.kind == OpKind::Stop && matches!(o.res, Some(Res::Ok)) && o.ended_before(h));
        let stop_called = v.ops.iter().any(|o| o.a == a && o.kind == OpKind::Stop && !o.skipped() && o.b_seq < h);
        let ended = av.joined_seq().map(|j| j < h).unwrap_or(false);
        if count_at_h == 0 || stop_accepted {
            // must have ended gracefully by quiescence (provided its running hook, if any, finishes)
            if !ended && stuck(v, a) {
                continue;
            }
            if !ended {
                out.push(viol(
                    "C07",
                    "did-not-end",
                    format!("actor {a}: strong handles held at quiescence = {count_at_h}, stop accepted = {stop_accepted}, yet its JoinHandle has not resolved"),
                ));
            } else {
                match av.stop_begin {
                    Some((_, _, false)) => {}
                    other => out.push(viol("C07", "not-graceful", format!("actor {a} was stopped/unreferenced without kill but on_stop was {other:?}"))),
                }
            }
        } else if !stop_called {
            // a reference exists, nothing asked it to end
            if ended || av.stop_begin.map(|s| s.0 < h).unwrap_or(false) {
                out.push(viol(
                    "C07",
                    "spontaneous-end",
                    format!("actor {a} ended (joined={:?}, on_stop={:?}) although {count_at_h} strong handle(s) exist and no stop/kill/error/panic occurred", av.joined_seq(), av.stop_begin),
                ));
            }
            // the post-mortem probe ask must be answered (by an actor that is not stuck in a hook)
            if stuck(v, a) {
                continue;
            }
            for o in v.ops.iter().filter(|o| o.a == a && o.phase == 1 && o.src == Src::Driver) {
                // a probe can itself wake the actor up (its arrival cancels an on_run that was
                // parked in an ask, and the next on_run invocation runs its script): an actor
                // that crashes then is no longer one that "never ends on its own"
                let crashed_by = av.panic_seq.into_iter().chain(av.run_err.map(|r| r.0)).min();
                if crashed_by.map(|c| o.e_seq.map(|e| c < e).unwrap_or(true)).unwrap_or(false) || v.kill_began_before(a, o.e_seq.unwrap_or(u64::MAX)) {
                    continue;
                }
                if let Some((how, mid, _)) = o.send() {
                    let ok = if how.is_ask() { matches!(o.res, Some(Res::Rep { .. })) } else { matches!(o.res, Some(Res::Ok)) && v.handled_count(mid) == 1 };
                    if !ok {
                        out.push(viol("C07", "live-actor-not-serving", format!("actor {a} is referenced and was never stopped, but the probe {how:?} ended as {:?}", o.res)));
                    }
                }
            }
        }
    }
    out
}

pub fn c07_labels(v: &View, l: &mut Vec<&'static str>) {
    let h = v.horizon();
    for a in 0..v.actors.len() {
        let av = &v.actors[a];
        if let Some(z) = av.first_zero().filter(|z| *z < h) {
            let queued = v.ops.iter().any(|o| {
                o.a == a
                    && o.send().map(|s| s.0.is_tell()).unwrap_or(false)
                    && matches!(o.res, Some(Res::Ok))
                    && o.ended_before(z)
                    && v.handlers.get(&o.send().unwrap().1).map(|hh| hh[0].b_seq > z).unwrap_or(true)
            });
            if queued {
                l.push("last_strong_gone_with_queue");
            }
            let weak_remaining = v.ops.iter().any(|o| o.a == a && matches!(o.kind, OpKind::Downgrade) && o.b_seq < z && matches!(o.res, Some(Res::Ok)));
            if weak_remaining {
                l.push("last_strong_gone_weak_remaining");
            }
        }
        let disabled = av.hooks.iter().any(|x| matches!(x.2, HookEv::RunEnd(_, Out::False, _)) && x.0 < h);
        if disabled && av.strong_at(h) > 0 && av.hooks.iter().any(|x| matches!(x.2, HookEv::HBegin(_))) {
            l.push("alive_after_on_run_false");
        }
        if av.strong_at(h) > 0 && av.joined_seq().map(|j| j > h).unwrap_or(true) {
            l.push("alive_at_quiescence");
        }
        if v.ops.iter().any(|o| o.a == a && matches!(o.kind, OpKind::Convert { erased: true }) && matches!(o.res, Some(Res::Ok))) {
            l.push("erased_handle_held");
        }
        if v.ops.iter().any(|o| o.a == a && o.kind == OpKind::Upgrade && matches!(o.res, Some(Res::Some))) {
            l.push("upgraded_handle");
        }
    }
}

// ------------------------------------------------------------------------------------------
// C08 — on_run is an idle handler
// ------------------------------------------------------------------------------------------
pub fn c08(v: &View) -> Vec<Violation> {
    let mut out = vec![];
    let h = v.horizon();
    for a in 0..v.actors.len() {
        let av = &v.actors[a];
        let mut disabled_at: Option<u64> = None;
        let mut last_true: Option<u64> = None;
        for (i, (seq, t, ev)) in av.hooks.iter().enumerate() {
            let progress = matches!(ev, HookEv::RunBegin(_) | HookEv::RunStep(..) | HookEv::RunEnd(..));
            if progress {
                if let Some(d) = disabled_at {
                    out.push(viol("C08", "on-run-after-false", format!("actor {a}: on_run body event {ev:?} at seq {seq} after on_run had returned Ok(false) at seq {d}")));
                    break;
                }
                // no accepted-but-unhandled tell from another task, no returned kill
                for o in v.ops.iter().filter(|o| o.a == a && o.src != Src::Actor(a) && o.ended_before(*seq)) {
                    match &o.kind {
                        OpKind::Send { how, mid, .. } if how.is_tell() && matches!(o.res, Some(Res::Ok)) => {
                            let waiting = v.handlers.get(mid).map(|hh| hh[0].b_seq > *seq).unwrap_or(true);
                            if waiting {
                                out.push(viol(
                                    "C08",
                                    "on-run-while-message-waiting",
                                    format!("actor {a}: on_run made progress ({ev:?}, seq {seq}, t={t}) while message {mid} (accepted at seq {}) was waiting", o.e_seq.unwrap()),
                                ));
                            }
                        }
                        OpKind::Kill if matches!(o.res, Some(Res::Ok)) => {
                            out.push(viol("C08", "on-run-while-kill-pending", format!("actor {a}: on_run made progress ({ev:?}, seq {seq}) after kill() had returned at seq {}", o.e_seq.unwrap())));
                        }
                        _ => {}
                    }
                }
            }
            match ev {
                HookEv::RunEnd(_, Out::False, _) => disabled_at = Some(*seq),
                HookEv::RunEnd(_, Out::Ok, _) => last_true = Some(*seq),
                HookEv::RunBegin(_) => last_true = None,
                HookEv::RunEnd(_, Out::Err, _) => {
                    // on_stop(killed=false) follows at once
                    match av.hooks.get(i + 1) {
                        Some((_, t2, HookEv::StopBegin(false))) if t2 == t => {}
                        other => {
                            if av.panic_seq.is_none() {
                                out.push(viol("C08", "on-run-err-not-followed-by-on-stop", format!("actor {a}: on_run returned Err at t={t}; next hook event: {other:?}")));
                            }
                        }
                    }
                }
                _ => {}
            }
        }
        // Ok(false) only disables idle processing: the actor must not end because of it
        if let Some(d) = disabled_at {
            let ended = av.end_begin_seq().filter(|q| *q > d).or(av.joined_seq().filter(|q| *q > d));
            if let Some(q) = ended {
                let cause = v.ops.iter().any(|o| o.a == a && !o.skipped() && matches!(o.kind, OpKind::Stop | OpKind::Kill) && o.b_seq < q)
                    || av.first_zero().map(|z| z < q).unwrap_or(false)
                    || av.panic_seq.is_some()
                    || av.run_err.is_some();
                if !cause {
                    out.push(viol("C08", "ended-after-ok-false", format!("actor {a}: on_run returned Ok(false) at seq {d}; the actor ended at seq {q} although nothing stopped, killed or unreferenced it")));
                }
            }
        }
        // re-armed after Ok(true) when idle again
        if let Some(lt) = last_true {
            let alive_idle = av.end_begin_seq().map(|e| e > h).unwrap_or(true) && !busy_at(v, a, h) && lt < h;
            let rearmed = av.hooks.iter().any(|x| x.0 > lt && matches!(x.2, HookEv::RunBegin(_)));
            if alive_idle && !rearmed && v.phase_seq[0].is_some() {
                out.push(viol("C08", "on-run-not-rearmed", format!("actor {a}: on_run returned Ok(true) at seq {lt}, the actor is idle at quiescence, but on_run was not started again")));
            }
        }
    }
    out
}

pub fn c08_labels(v: &View, l: &mut Vec<&'static str>) {
    for a in 0..v.actors.len() {
        let av = &v.actors[a];
        // message accepted while an on_run invocation was suspended
        let mut open: Option<u64> = None;
        for (seq, _, ev) in &av.hooks {
            match ev {
                HookEv::RunBegin(_) => open = Some(*seq),
                HookEv::RunEnd(..) => open = None,
                HookEv::HBegin(_) => {
                    if open.take().is_some() {
                        l.push("message_interrupted_on_run");
                    }
                    let _ = seq;
                }
                _ => {}
            }
        }
        if let Some(d) = av.hooks.iter().find(|x| matches!(x.2, HookEv::RunEnd(_, Out::False, _))) {
            if av.hooks.iter().any(|x| x.0 > d.0 && matches!(x.2, HookEv::HBegin(_))) {
                l.push("traffic_after_ok_false");
            }
        }
        if av.run_err.is_some() {
            l.push("on_run_err");
        }
        if av.hooks.iter().filter(|x| matches!(x.2, HookEv::RunEnd(_, Out::Ok, _))).count() >= 1 {
            l.push("on_run_ok_true");
        }
    }
}

// ------------------------------------------------------------------------------------------
// C09 — capacity is a hard bound with waiting back-pressure
// ------------------------------------------------------------------------------------------
pub fn c09(v: &View) -> Vec<Violation> {
    let mut out = vec![];
    for a in 0..v.actors.len() {
        let av = &v.actors[a];
        if !av.spawned {
            continue;
        }
        let cap = cap_of(v, a) as i64;
        let window_end = av.end_begin_seq().unwrap_or(u64::MAX).min(v.horizon().saturating_add(1));
        // event list: (seq, delta_acc, delta_maybe)
        // acc   = definitely in the mailbox (tell/stop returned Ok, not yet taken)
        // maybe = possibly in the mailbox (ask begun, not handled, not failed with Send)
        #[derive(Clone, Copy)]
        enum E {
            Acc(i64),
            Maybe(i64),
            PendBegin,
            PendEnd,
        }
        let mut evs: Vec<(u64, E)> = vec![];
        for o in v.ops.iter().filter(|o| o.a == a && !o.skipped()) {
            match &o.kind {
                OpKind::Send { how, mid, .. } => {
                    let hb = v.handlers.get(mid).filter(|h| h[0].a == a).map(|h| h[0].b_seq);
                    if how.is_tell() {
                        // a tell issued from on_run can be cancelled with its future: not a waiter
                        let cancellable = matches!(o.hook, Some(HookId::Run(_)));
                        if !cancellable {
                            evs.push((o.b_seq, E::PendBegin));
                        }
                        if let Some(e) = o.e_seq {
                            if !cancellable {
                                evs.push((e, E::PendEnd));
                            }
                            if matches!(o.res, Some(Res::Ok)) {
                                evs.push((e, E::Acc(1)));
                                if let Some(hb) = hb {
                                    evs.push((hb, E::Acc(-1)));
                                }
                            }
                        }
                    } else {
                        // ask-like: may be in the queue from its begin until taken; an ask that
                        // failed with Send never entered; one that timed out may still be queued
                        match (&o.res, o.e_seq) {
                            (Some(Res::ErrSend), _) | (Some(Res::Panicked(_)), _) => {}
                            _ => {
                                evs.push((o.b_seq, E::Maybe(1)));
                                if let Some(hb) = hb {
                                    evs.push((hb, E::Maybe(-1)));
                                }
                            }
                        }
                    }
                }
                OpKind::Stop => {
                    evs.push((o.b_seq, E::PendBegin));
                    if let Some(e) = o.e_seq {
                        evs.push((e, E::PendEnd));
                        if matches!(o.res, Some(Res::Ok)) {
                            evs.push((e, E::Acc(1)));
                        }
                    }
                }
                _ => {}
            }
        }
        evs.sort_by_key(|e| e.0);
        let (mut acc, mut maybe, mut pend) = (0i64, 0i64, 0i64);
        let mut i = 0;
        // walk the global trace to find quiescent points (virtual time advances)
        let mut prev_t = 0u64;
        for e in v.evs.iter() {
            if e.seq >= window_end {
                break;
            }
            if e.t > prev_t {
                // state just before e = quiescent state at prev_t
                if pend > 0 && acc + maybe < cap {
                    out.push(viol(
                        "C09",
                        "send-waits-while-slot-free",
                        format!("actor {a} (capacity {cap}): at quiescent instant t={prev_t} {pend} tell/stop call(s) are waiting although at most {} message(s) can be in the mailbox", acc + maybe),
                    ));
                    break;
                }
                prev_t = e.t;
            }
            while i < evs.len() && evs[i].0 <= e.seq {
                match evs[i].1 {
                    E::Acc(d) => acc += d,
                    E::Maybe(d) => maybe += d,
                    E::PendBegin => pend += 1,
                    E::PendEnd => pend -= 1,
                }
                i += 1;
            }
            if acc > cap {
                out.push(viol(
                    "C09",
                    "capacity-exceeded",
                    format!("actor {a} (capacity {cap}): {acc} accepted-but-not-taken messages/stop requests at seq {}", e.seq),
                ));
                break;
            }
        }
    }
    // a tell that had to wait is accepted at the very instant a slot is freed, i.e. when the actor
    // takes a message (permits are only released by the receiver): no polling delay, no back-off
    for o in v.sends() {
        let (how, mid, _) = o.send().unwrap();
        if !how.is_tell() || how.is_blocking() || !matches!(o.res, Some(Res::Ok)) {
            continue;
        }
        let Some(e) = o.e_t else { continue };
        if e == o.b_t {
            continue;
        }
        let av = &v.actors[o.a];
        let freed = av.hooks.iter().any(|h| h.1 == e && matches!(h.2, HookEv::HBegin(_) | HookEv::StopBegin(_)));
        if !freed {
            out.push(viol(
                "C09",
                "accepted-later-than-slot-free",
                format!("{how:?} of message {mid} to actor {} waited from t={} and was accepted at t={e}, an instant at which the actor took nothing from its mailbox", o.a, o.b_t),
            ));
        }
    }
    // a send fails with Send only once the actor has begun to end (never because the mailbox is full)
    for o in v.sends() {
        if matches!(o.res, Some(Res::ErrSend)) {
            let ended = v.actors[o.a].end_begin_seq().map(|e| e < o.e_seq.unwrap()).unwrap_or(false);
            if !ended {
                out.push(viol("C09", "send-failed-on-live-actor", format!("{:?} on actor {} failed with Send although the actor had not begun to end", o.kind, o.a)));
            }
        }
    }
    out
}

pub fn c09_labels(v: &View, l: &mut Vec<&'static str>) {
    for o in v.sends() {
        if o.send().unwrap().0.is_tell() && o.e_t.map(|e| e > o.b_t).unwrap_or(true) {
            l.push("send_waited_for_slot");
            let cap = cap_of(v, o.a);
            if cap == 1 {
                l.push("waited_cap_1");
            } else if cap >= 32 {
                l.push("waited_cap>=32");
            }
        }
    }
    if v.ops.iter().any(|o| o.kind == OpKind::Stop && o.e_t.map(|e| e > o.b_t).unwrap_or(true) && !o.skipped()) {
        l.push("stop_waited_for_slot");
    }
    l.sort();
    l.dedup();
}

// ------------------------------------------------------------------------------------------
// C10 — timeouts are exact
// ------------------------------------------------------------------------------------------
pub fn c10(v: &View) -> Vec<Violation> {
    let mut out = vec![];
    for (_, p, what) in &v.anomalies {
        if *p == "C10" {
            out.push(viol("C10", "is-retryable", what.clone()));
        }
    }
    for o in v.sends() {
        let (how, mid, _) = o.send().unwrap();
        let Some(t) = how.timeout() else { continue };
        if how.is_blocking() {
            continue;
        }
        let s = o.b_t;
        let deadline = s + t as u64;
        let joined_t = v.actors[o.a].joined.as_ref().map(|j| j.1);
        let h = v.handlers.get(&mid).map(|h| &h[0]);
        if how.late().is_some() {
            // busy caller: the instant of return says nothing (the caller polled late), and a reply
            // that arrived after the deadline but before the caller looked again is legitimately
            // returned as Ok (the property quantifies over completion times, not over callers that
            // do not poll; tokio's timeout checks the operation first). What must hold: Timeout is
            // never reported when the reply (or a failure) was there strictly before the deadline.
            let completed = h.and_then(|h| h.e_t).filter(|_| h.map(|h| h.out != Some(Out::Panic)).unwrap_or(false));
            match &o.res {
                Some(Res::ErrTimeout) => {
                    if let Some(c) = completed {
                        if c < deadline {
                            out.push(viol("C10", "timeout-although-completed", format!("{how:?} of message {mid} (busy caller, polled again at t={:?}): the reply was produced at t={c} < deadline t={deadline}, yet Timeout", o.e_t)));
                        }
                    }
                    if let Some(jt) = joined_t {
                        if jt < deadline && jt >= s {
                            out.push(viol("C10", "timeout-masks-failure", format!("{how:?} of message {mid} (busy caller): the actor ended at t={jt} < deadline t={deadline}, yet Timeout was reported")));
                        }
                    }
                }
                _ => {}
            }
            continue;
        }
        match (&o.res, o.e_t) {
            (None, _) | (_, None) => {
                // still pending: only legitimate if the deadline lies beyond the observed horizon
                // (client tasks are observed until the end of the probe phase)
                let end_t = v.phase_seq[1].map(|p| v.evs[(p - 1) as usize].t).unwrap_or(0);
                if deadline < end_t && o.phase == 0 && matches!(o.src, Src::Client(_)) {
                    out.push(viol("C10", "late", format!("{how:?} of message {mid} begun at t={s} had not returned at t={end_t}")));
                }
            }
            (Some(Res::ErrTimeout), Some(e)) => {
                if e != deadline {
                    out.push(viol("C10", if e < deadline { "early-timeout" } else { "late" }, format!("{how:?} of message {mid} begun at t={s} returned Timeout at t={e}, deadline t={deadline}")));
                }
                if how.is_ask() {
                    if let Some(he) = h.and_then(|h| h.e_t) {
                        if he < deadline && h.unwrap().out != Some(Out::Panic) {
                            out.push(viol("C10", "timeout-although-completed", format!("{how:?} of message {mid}: reply was produced at t={he} < deadline t={deadline}, yet Timeout")));
                        }
                    }
                }
                if let Some(jt) = joined_t {
                    if jt < deadline && jt >= s {
                        out.push(viol("C10", "timeout-masks-failure", format!("{how:?} of message {mid}: the actor ended at t={jt} < deadline t={deadline}, yet Timeout was reported")));
                    }
                }
            }
            (Some(r), Some(e)) if r.is_ok() => {
                if e > deadline {
                    out.push(viol("C10", "late", format!("{how:?} of message {mid} begun at t={s} returned Ok at t={e} > deadline t={deadline}")));
                }
                if how.is_ask() {
                    if let Some(he) = h.and_then(|h| h.e_t) {
                        if he != e {
                            out.push(viol("C10", "ok-not-at-completion", format!("{how:?} of message {mid}: reply produced at t={he}, call returned at t={e}")));
                        }
                    }
                }
            }
            (Some(Res::ErrSend), Some(e)) | (Some(Res::ErrRecv), Some(e)) => {
                // reported as itself at the instant of its cause
                match joined_t {
                    Some(jt) => {
                        let cause = jt.max(s);
                        if e != cause {
                            out.push(viol("C10", "failure-not-immediate", format!("{how:?} of message {mid}: the actor ended at t={jt}, the call (begun t={s}) returned {:?} at t={e}", o.res)));
                        }
                        if e > deadline {
                            out.push(viol("C10", "late", format!("{how:?} of message {mid} returned {:?} at t={e} after its deadline t={deadline}", o.res)));
                        }
                    }
                    None => {
                        // Receive without the actor ending: the handler of this very message panicked
                        // (then the actor does end) — anything else is unexplained
                        out.push(viol("C10", "unexplained-failure", format!("{how:?} of message {mid} returned {:?} but the actor never ended", o.res)));
                    }
                }
            }
            _ => {}
        }
    }
    out
}

pub fn c10_labels(v: &View, l: &mut Vec<&'static str>) {
    for o in v.sends() {
        let (how, mid, _) = o.send().unwrap();
        let Some(t) = how.timeout() else { continue };
        let deadline = o.b_t + t as u64;
        if let Some(he) = v.handlers.get(&mid).and_then(|h| h[0].e_t) {
            if how.is_ask() {
                if he == deadline {
                    l.push("tie");
                } else if he.abs_diff(deadline) <= 2 {
                    l.push("near_deadline");
                }
            }
        }
        match &o.res {
            Some(Res::ErrTimeout) => l.push(if how.is_tell() { "tell_timeout" } else { "ask_timeout" }),
            Some(Res::ErrSend) | Some(Res::ErrRecv) => l.push("failure_before_deadline"),
            Some(r) if r.is_ok() && o.e_t.map(|e| e > o.b_t).unwrap_or(false) && how.is_tell() => l.push("tell_t_waited_then_ok"),
            _ => {}
        }
        if t == 0 {
            l.push("timeout_zero");
        }
    }
    l.sort();
    l.dedup();
}

// ------------------------------------------------------------------------------------------
// C11 — identity, is_alive, upgrade
// ------------------------------------------------------------------------------------------
pub fn c11(v: &View) -> Vec<Violation> {
    let mut out = vec![];
    for (_, p, what) in &v.anomalies {
        if *p == "C11" {
            out.push(viol("C11", "identity-mismatch", what.clone()));
        }
    }
    // ids pairwise distinct
    for a in 0..v.actors.len() {
        for b in (a + 1)..v.actors.len() {
            if v.actors[a].spawned && v.actors[b].spawned && v.actors[a].id == v.actors[b].id {
                out.push(viol("C11", "duplicate-id", format!("actors {a} and {b} share id {}", v.actors[a].id)));
            }
        }
    }
    for e in v.evs {
        let K::Obs { op, id, ty, alive, upgradable } = &e.k else { continue };
        let Some(o) = v.op(*op) else { continue };
        if o.a >= v.actors.len() {
            continue;
        }
        let av = &v.actors[o.a];
        if *id != av.id || *ty != av.ty {
            out.push(viol("C11", "identity-mismatch", format!("a handle derived from actor {} ({}#{}) reports {}#{}", o.a, av.ty, av.id, ty, id)));
        }
        let p = e.seq;
        match upgradable {
            None => {
                // strong handle
                let before_end = av.end_begin_seq().map(|x| x > p).unwrap_or(true);
                if before_end && !*alive {
                    out.push(viol("C11", "is-alive-false-on-live-actor", format!("is_alive() = false on actor {} at seq {p}, before it began to end", o.a)));
                }
                if av.joined_seq().map(|j| j < p).unwrap_or(false) && *alive {
                    out.push(viol("C11", "is-alive-true-on-dead-actor", format!("is_alive() = true on actor {} at seq {p}, after its JoinHandle resolved", o.a)));
                }
            }
            Some(u) => {
                let n = av.strong_at(p);
                if n > 0 && !*u {
                    out.push(viol("C11", "upgrade-none-while-referenced", format!("upgrade() = None on actor {} at seq {p} while {n} strong handle(s) are held", o.a)));
                }
                if n == 0 && av.joined_seq().map(|j| j < p).unwrap_or(false) && *u {
                    out.push(viol("C11", "upgrade-some-on-dead-unreferenced", format!("upgrade() = Some on actor {} at seq {p}: JoinHandle resolved and no strong handle held", o.a)));
                }
            }
        }
    }
    for o in v.ops.iter().filter(|o| o.kind == OpKind::Upgrade && o.a < v.actors.len()) {
        let av = &v.actors[o.a];
        let n = av.strong_at(o.b_seq);
        match &o.res {
            Some(Res::None) if n > 0 => out.push(viol("C11", "upgrade-none-while-referenced", format!("upgrade() = None on actor {} at seq {} while {n} strong handle(s) are held", o.a, o.b_seq))),
            Some(Res::Some) if n == 0 && av.joined_seq().map(|j| j < o.b_seq).unwrap_or(false) => {
                out.push(viol("C11", "upgrade-some-on-dead-unreferenced", format!("upgrade() = Some on actor {} after its JoinHandle resolved with no strong handle held", o.a)))
            }
            _ => {}
        }
    }
    // once the JoinHandle has resolved every send fails
    for o in v.sends() {
        if let Some(j) = v.actors[o.a].joined_seq() {
            if o.b_seq > j && !o.res.as_ref().map(|r| r.is_err()).unwrap_or(false) {
                out.push(viol("C11", "send-succeeds-on-dead-actor", format!("{:?} on ended actor {} returned {:?}", o.kind, o.a, o.res)));
            }
        }
    }
    out
}

pub fn c11_labels(v: &View, l: &mut Vec<&'static str>) {
    for e in v.evs {
        let K::Obs { op, upgradable, .. } = &e.k else { continue };
        let Some(o) = v.op(*op) else { continue };
        if o.a >= v.actors.len() {
            continue;
        }
        let av = &v.actors[o.a];
        let p = e.seq;
        if av.start_end.map(|s| s.0 > p).unwrap_or(true) {
            l.push("probe_during_on_start");
        }
        if av.stop_begin.map(|s| s.0 < p).unwrap_or(false) && av.stop_end.map(|s| s.0 > p).unwrap_or(true) {
            l.push("probe_during_on_stop");
        }
        if av.joined_seq().map(|j| j < p).unwrap_or(false) {
            l.push(if upgradable.is_some() { "weak_probe_after_end" } else { "probe_after_end" });
        }
        if upgradable.is_some() {
            l.push("weak_probe");
        }
    }
    l.sort();
    l.dedup();
}
