//! Indexes over a trace, shared by all monitors.

use crate::scenario::*;
use crate::sim::PROBE_BASE;
use crate::trace::*;
use std::collections::HashMap;

#[derive(Clone, Debug)]
pub struct OpRec {
    pub op: u64,
    pub src: Src,
    pub hook: Option<HookId>,
    pub a: usize,
    pub kind: OpKind,
    pub slot: usize,
    pub b_seq: u64,
    pub b_t: u64,
    pub e_seq: Option<u64>,
    pub e_t: Option<u64>,
    pub res: Option<Res>,
    /// 0 = main phase, 1 = post-mortem probes, 2 = epilogue
    pub phase: u8,
}

impl OpRec {
    pub fn send(&self) -> Option<(How, u32, Ty)> {
        match &self.kind {
            OpKind::Send { how, mid, ty } => Some((*how, *mid, *ty)),
            _ => None,
        }
    }
    pub fn skipped(&self) -> bool {
        matches!(self.res, Some(Res::Skipped))
    }
    pub fn ended_before(&self, seq: u64) -> bool {
        self.e_seq.map(|e| e < seq).unwrap_or(false)
    }
}

#[derive(Clone, Debug)]
pub struct HandlerRec {
    pub a: usize,
    pub mid: u32,
    pub ty: Ty,
    pub b_seq: u64,
    pub b_t: u64,
    pub e_seq: Option<u64>,
    pub e_t: Option<u64>,
    pub nonce: u64,
    pub out: Option<Out>,
    pub inner_ns: u64,
}

#[derive(Clone, Debug, PartialEq)]
pub enum HookEv {
    StartBegin,
    StartEnd(Out, u64),
    HBegin(u32),
    HEnd(u32, Out),
    RunBegin(u32),
    RunStep(u32, u32),
    RunEnd(u32, Out, u64),
    StopBegin(bool),
    StopEnd(Out, u64),
}

#[derive(Clone, Debug, Default)]
pub struct ActorView {
    pub spawned: bool,
    pub spawn_seq: u64,
    pub id: u64,
    pub ty: String,
    pub cap: u32,
    pub hooks: Vec<(u64, u64, HookEv)>,
    pub joined: Option<(u64, u64, JoinRes, Option<ActorState>)>,
    pub start_end: Option<(u64, u64, Out, u64)>,
    pub stop_begin: Option<(u64, u64, bool)>,
    pub stop_end: Option<(u64, u64, Out, u64)>,
    pub run_err: Option<(u64, u64, u64)>,
    /// first event that is a scripted or observed panic inside this actor's task
    pub panic_seq: Option<u64>,
    /// (seq, count after the change)
    pub strong: Vec<(u64, i32)>,
    pub stop_begin_count: u32,
    pub start_begin_count: u32,
}

impl ActorView {
    /// seq at which the actor "began to end": on_stop entry, on_start failure, on_run error or a panic
    pub fn end_begin_seq(&self) -> Option<u64> {
        let mut c: Vec<u64> = vec![];
        if let Some((s, _, _)) = self.stop_begin {
            c.push(s);
        }
        if let Some((s, _, out, _)) = self.start_end {
            if out != Out::Ok {
                c.push(s);
            }
        }
        if let Some((s, _, _)) = self.run_err {
            c.push(s);
        }
        if let Some(s) = self.panic_seq {
            c.push(s);
        }
        c.into_iter().min()
    }
    pub fn start_begin_seq(&self) -> Option<u64> {
        self.hooks.iter().find(|h| matches!(h.2, HookEv::StartBegin)).map(|h| h.0)
    }
    pub fn joined_seq(&self) -> Option<u64> {
        self.joined.as_ref().map(|j| j.0)
    }
    pub fn started_ok(&self) -> bool {
        matches!(self.start_end, Some((_, _, Out::Ok, _)))
    }
    /// strong handle count (harness model) just before event `seq`
    pub fn strong_at(&self, seq: u64) -> i32 {
        let mut n = 0;
        for (s, c) in &self.strong {
            if *s < seq {
                n = *c;
            } else {
                break;
            }
        }
        n
    }
    /// first seq at which the harness-visible strong count became zero (after having been > 0)
    pub fn first_zero(&self) -> Option<u64> {
        self.strong.iter().find(|(_, c)| *c == 0).map(|(s, _)| *s)
    }
}

pub struct View<'a> {
    pub sc: &'a Scenario,
    pub evs: &'a [Ev],
    pub ops: Vec<OpRec>,
    pub op_ix: HashMap<u64, usize>,
    /// handler executions by message id (more than one entry = handled twice)
    pub handlers: HashMap<u32, Vec<HandlerRec>>,
    pub handler_order: Vec<(u64, usize, u32)>,
    pub tell_results: HashMap<u32, u32>,
    pub actors: Vec<ActorView>,
    pub phase_seq: [Option<u64>; 3],
    pub anomalies: Vec<(u64, &'static str, String)>,
    pub dead_letters: Vec<(u64, String, String, String, String, u64)>,
    pub panics_seen: Vec<(u64, String)>,
    pub client_done: Vec<bool>,
    pub client_panics: Vec<(usize, String)>,
    pub graphs: Vec<(u64, u64, Vec<(u64, u64)>)>,
    pub dl_counts: Vec<u64>,
    /// every message of the scenario (including nested ones) by id
    pub msgs: HashMap<u32, &'a Msg>,
}

fn collect_msgs<'a>(steps: &'a [Step], out: &mut HashMap<u32, &'a Msg>) {
    for s in steps {
        if let Step::Send { msg, .. } = s {
            out.insert(msg.id, &**msg);
            collect_msgs(&msg.steps, out);
        }
        if let Step::Par(inner) = s {
            collect_msgs(inner, out);
        }
    }
}

impl<'a> View<'a> {
    pub fn new(sc: &'a Scenario, evs: &'a [Ev]) -> View<'a> {
        let n = sc.actors.len() + sc.late_spawn as usize;
        let mut v = View {
            sc,
            evs,
            ops: vec![],
            op_ix: HashMap::new(),
            handlers: HashMap::new(),
            handler_order: vec![],
            tell_results: HashMap::new(),
            actors: (0..n).map(|_| ActorView::default()).collect(),
            phase_seq: [None; 3],
            anomalies: vec![],
            dead_letters: vec![],
            panics_seen: vec![],
            client_done: vec![false; sc.clients.len()],
            client_panics: vec![],
            graphs: vec![],
            dl_counts: vec![],
            msgs: HashMap::new(),
        };
        for a in &sc.actors {
            collect_msgs(&a.start.steps, &mut v.msgs);
            collect_msgs(&a.stop.steps, &mut v.msgs);
            for r in &a.runs {
                collect_msgs(&r.steps, &mut v.msgs);
            }
        }
        for c in &sc.clients {
            for o in &c.ops {
                if let Op::Send { msg, .. } = &o.op {
                    v.msgs.insert(msg.id, msg);
                    collect_msgs(&msg.steps, &mut v.msgs);
                }
            }
        }
        let mut phase = 0u8;
        let mut strong = vec![0i32; n];
        for e in evs {
            let (seq, t) = (e.seq, e.t);
            match &e.k {
                K::Spawned { a, id, ty, cap } => {
                    let av = &mut v.actors[*a];
                    av.spawned = true;
                    av.spawn_seq = seq;
                    av.id = *id;
                    av.ty = ty.clone();
                    av.cap = *cap;
                }
                K::SpawnPanicked { .. } => {}
                K::OpBegin { op, src, hook, a, kind, slot, .. } => {
                    v.op_ix.insert(*op, v.ops.len());
                    v.ops.push(OpRec {
                        op: *op,
                        src: *src,
                        hook: *hook,
                        a: *a,
                        kind: kind.clone(),
                        slot: *slot,
                        b_seq: seq,
                        b_t: t,
                        e_seq: None,
                        e_t: None,
                        res: None,
                        phase,
                    });
                }
                K::OpEnd { op, res } => {
                    if let Some(i) = v.op_ix.get(op) {
                        let o = &mut v.ops[*i];
                        o.e_seq = Some(seq);
                        o.e_t = Some(t);
                        o.res = Some(res.clone());
                        if let (Res::Panicked(_), Src::Actor(a)) = (res, o.src) {
                            let av = &mut v.actors[a];
                            if av.panic_seq.is_none() {
                                av.panic_seq = Some(seq);
                            }
                        }
                    }
                }
                K::StartBegin { a } => {
                    v.actors[*a].hooks.push((seq, t, HookEv::StartBegin));
                    v.actors[*a].start_begin_count += 1;
                }
                K::StartEnd { a, out, tag } => {
                    let av = &mut v.actors[*a];
                    av.hooks.push((seq, t, HookEv::StartEnd(*out, *tag)));
                    av.start_end = Some((seq, t, *out, *tag));
                    if *out == Out::Panic && av.panic_seq.is_none() {
                        av.panic_seq = Some(seq);
                    }
                }
                K::HBegin { a, mid, ty } => {
                    v.actors[*a].hooks.push((seq, t, HookEv::HBegin(*mid)));
                    v.handlers.entry(*mid).or_default().push(HandlerRec {
                        a: *a,
                        mid: *mid,
                        ty: *ty,
                        b_seq: seq,
                        b_t: t,
                        e_seq: None,
                        e_t: None,
                        nonce: 0,
                        out: None,
                        inner_ns: 0,
                    });
                    v.handler_order.push((seq, *a, *mid));
                }
                K::HEnd { a, mid, nonce, out, inner_ns } => {
                    let av = &mut v.actors[*a];
                    av.hooks.push((seq, t, HookEv::HEnd(*mid, *out)));
                    if *out == Out::Panic && av.panic_seq.is_none() {
                        av.panic_seq = Some(seq);
                    }
                    if let Some(hs) = v.handlers.get_mut(mid) {
                        if let Some(h) = hs.iter_mut().rev().find(|h| h.e_seq.is_none() && h.a == *a) {
                            h.e_seq = Some(seq);
                            h.e_t = Some(t);
                            h.nonce = *nonce;
                            h.out = Some(*out);
                            h.inner_ns = *inner_ns;
                        }
                    }
                }
                K::TellResult { mid, .. } => {
                    *v.tell_results.entry(*mid).or_default() += 1;
                }
                K::RunBegin { a, inv } => v.actors[*a].hooks.push((seq, t, HookEv::RunBegin(*inv))),
                K::RunStep { a, inv, step } => v.actors[*a].hooks.push((seq, t, HookEv::RunStep(*inv, *step))),
                K::RunEnd { a, inv, out, tag } => {
                    let av = &mut v.actors[*a];
                    av.hooks.push((seq, t, HookEv::RunEnd(*inv, *out, *tag)));
                    if *out == Out::Err && av.run_err.is_none() {
                        av.run_err = Some((seq, t, *tag));
                    }
                    if *out == Out::Panic && av.panic_seq.is_none() {
                        av.panic_seq = Some(seq);
                    }
                }
                K::RunPoll { .. } => {}
                K::StopBegin { a, killed } => {
                    let av = &mut v.actors[*a];
                    av.hooks.push((seq, t, HookEv::StopBegin(*killed)));
                    av.stop_begin_count += 1;
                    if av.stop_begin.is_none() {
                        av.stop_begin = Some((seq, t, *killed));
                    }
                }
                K::StopEnd { a, out, tag } => {
                    let av = &mut v.actors[*a];
                    av.hooks.push((seq, t, HookEv::StopEnd(*out, *tag)));
                    if av.stop_end.is_none() {
                        av.stop_end = Some((seq, t, *out, *tag));
                    }
                    if *out == Out::Panic && av.panic_seq.is_none() {
                        av.panic_seq = Some(seq);
                    }
                }
                K::Joined { a, res, state } => {
                    if v.actors[*a].joined.is_none() {
                        v.actors[*a].joined = Some((seq, t, res.clone(), state.clone()));
                    }
                }
                K::Strong { a, n } => {
                    if *a < strong.len() {
                        strong[*a] += *n;
                        v.actors[*a].strong.push((seq, strong[*a]));
                    }
                }
                K::Anomaly { prop, what } => v.anomalies.push((seq, prop, what.clone())),
                K::DeadLetter { actor_id, actor_type, msg_type, reason, op } => v.dead_letters.push((
                    seq,
                    actor_type.clone(),
                    msg_type.clone(),
                    reason.clone(),
                    op.clone(),
                    *actor_id,
                )),
                K::PanicSeen { msg } => v.panics_seen.push((seq, msg.clone())),
                K::ClientDone { c } => {
                    if *c < v.client_done.len() {
                        v.client_done[*c] = true
                    }
                }
                K::ClientPanicked { c, msg } => v.client_panics.push((*c, msg.clone())),
                K::Phase(p) => {
                    phase = *p;
                    if (1..=3).contains(p) {
                        v.phase_seq[(*p - 1) as usize] = Some(seq);
                    }
                }
                K::Graph { edges } => v.graphs.push((seq, t, edges.clone())),
                K::DeadLetterCount { n } => v.dl_counts.push(*n),
                K::Obs { .. } | K::MetricsRead { .. } | K::JobBegin { .. } | K::JobEnd { .. } | K::LogError { .. } => {}
            }
        }
        v
    }

    pub fn horizon(&self) -> u64 {
        self.phase_seq[0].unwrap_or(u64::MAX)
    }

    pub fn op(&self, op: u64) -> Option<&OpRec> {
        self.op_ix.get(&op).map(|i| &self.ops[*i])
    }

    /// message operations (sends) on actor a, main phase or later
    pub fn sends<'b>(&'b self) -> impl Iterator<Item = &'b OpRec> + 'b {
        self.ops.iter().filter(|o| o.send().is_some() && !o.skipped() && o.a < self.actors.len())
    }

    pub fn handled_count(&self, mid: u32) -> usize {
        self.handlers.get(&mid).map(|h| h.len()).unwrap_or(0)
    }

    pub fn is_probe(mid: u32) -> bool {
        mid >= PROBE_BASE
    }

    /// any kill() call that began on actor a (from anyone) before seq
    pub fn kill_began_before(&self, a: usize, seq: u64) -> bool {
        self.ops.iter().any(|o| o.a == a && o.kind == OpKind::Kill && !o.skipped() && o.b_seq < seq)
    }
    pub fn any_kill(&self, a: usize) -> bool {
        self.kill_began_before(a, u64::MAX)
    }

    /// Did the actor end for a reason other than graceful stop / loss of references?
    pub fn crashed_or_killed(&self, a: usize) -> bool {
        let av = &self.actors[a];
        self.any_kill(a) || av.panic_seq.is_some() || av.run_err.is_some() || !av.started_ok()
    }

    pub fn obs_of(&self, op: u64) -> Option<(u64, &str, bool, Option<bool>)> {
        for e in self.evs {
            if let K::Obs { op: o, id, ty, alive, upgradable } = &e.k {
                if *o == op {
                    return Some((*id, ty.as_str(), *alive, *upgradable));
                }
            }
        }
        None
    }
}

#[derive(Clone, Debug, serde::Serialize)]
pub struct Violation {
    pub prop: &'static str,
    /// short class name of the violation (stable; used to match known findings and by the shrinker)
    pub kind: &'static str,
    pub detail: String,
}

pub fn viol(prop: &'static str, kind: &'static str, detail: String) -> Violation {
    Violation { prop, kind, detail }
}
