//! One totally ordered trace per case: (seq, time, what).

use crate::scenario::{How, Out, Ty};
use serde::Serialize;
use std::sync::{Arc, Mutex};

/// Who performed an operation.
#[derive(Serialize, Clone, Copy, Debug, PartialEq, Eq, Hash)]
pub enum Src {
    Client(usize),
    /// an actor hook (actor index)
    Actor(usize),
    /// the driver (post-mortem probes, epilogue)
    Driver,
}

#[derive(Serialize, Clone, Copy, Debug, PartialEq, Eq, Hash)]
pub enum HookId {
    Start,
    Handler(u32),
    Run(u32),
    Stop,
}

/// Result of an operation as seen by its caller.
#[derive(Serialize, Clone, Debug, PartialEq)]
pub enum Res {
    Ok,
    /// ask reply: (message id the handler says it served, per-handler nonce, error flag)
    Rep { id: u32, nonce: u64, err: bool },
    /// ask_join value
    Job(u64),
    ErrSend,
    ErrRecv,
    ErrTimeout,
    ErrJoinPanic,
    ErrJoinCancelled,
    ErrOther(String),
    /// the slot was empty / the peer could not be upgraded: nothing was attempted
    Skipped,
    /// upgrade() returned Some / None
    Some,
    None,
    /// the operation panicked (message)
    Panicked(String),
    /// the caller dropped the call's future before it returned (caller-side cancellation)
    Abandoned,
}

impl Res {
    pub fn is_err(&self) -> bool {
        matches!(
            self,
            Res::ErrSend
                | Res::ErrRecv
                | Res::ErrTimeout
                | Res::ErrJoinPanic
                | Res::ErrJoinCancelled
                | Res::ErrOther(_)
        )
    }
    pub fn is_ok(&self) -> bool {
        matches!(self, Res::Ok | Res::Rep { .. } | Res::Job(_))
    }
}

#[derive(Serialize, Clone, Debug, PartialEq)]
pub enum OpKind {
    Send { how: How, mid: u32, ty: Ty },
    Stop,
    Kill,
    Clone,
    Drop,
    Downgrade,
    Upgrade,
    DropWeak,
    CloneWeak,
    Convert { erased: bool },
    Probe,
    ProbeWeak,
    Metrics,
}

#[derive(Serialize, Clone, Debug, PartialEq)]
pub enum JoinRes {
    Completed { killed: bool },
    Failed { phase: String, killed: bool, has_actor: bool, err_tag: u64, err_hook: String },
    Panic(String),
    Cancelled,
}

/// state carried by the actor instance returned in the ActorResult
#[derive(Serialize, Clone, Debug, PartialEq, Default)]
pub struct ActorState {
    pub handled: Vec<u32>,
    pub run_invocations: u32,
    pub run_completed: u32,
    pub stop_seen: Option<bool>,
}

#[derive(Serialize, Clone, Debug, PartialEq, Default)]
pub struct MetricsObs {
    pub count: u64,
    pub avg_ns: u64,
    pub max_ns: u64,
    pub snap_count: u64,
    pub snap_avg_ns: u64,
    pub snap_max_ns: u64,
    pub errors: u64,
}

#[derive(Serialize, Clone, Debug, PartialEq)]
pub enum K {
    Spawned { a: usize, id: u64, ty: String, cap: u32 },
    SpawnPanicked { a: usize, msg: String },
    /// any operation begins: `op` is a process-unique operation number
    OpBegin { op: u64, src: Src, hook: Option<HookId>, a: usize, kind: OpKind, slot: usize, via: u8 },
    OpEnd { op: u64, res: Res },
    /// observation attached to a probe op
    Obs { op: u64, id: u64, ty: String, alive: bool, upgradable: Option<bool> },
    MetricsRead { op: u64, a: usize, m: MetricsObs },
    StartBegin { a: usize },
    StartEnd { a: usize, out: Out, tag: u64 },
    HBegin { a: usize, mid: u32, ty: Ty },
    HEnd { a: usize, mid: u32, nonce: u64, out: Out, inner_ns: u64 },
    /// on_tell_result was invoked for message `mid`
    TellResult { a: usize, mid: u32, err: bool },
    /// first poll of an on_run future (invocation number `inv`)
    RunBegin { a: usize, inv: u32 },
    /// on_run body completed step `step` of invocation `inv`
    RunStep { a: usize, inv: u32, step: u32 },
    RunEnd { a: usize, inv: u32, out: Out, tag: u64 },
    /// raw poll of the on_run future (only recorded when requested)
    RunPoll { a: usize, inv: u32 },
    StopBegin { a: usize, killed: bool },
    StopEnd { a: usize, out: Out, tag: u64 },
    /// a step inside a hook completed (handlers / on_start / on_stop), for timing checks
    Joined { a: usize, res: JoinRes, state: Option<ActorState> },
    JobBegin { mid: u32 },
    JobEnd { mid: u32 },
    DeadLetter { actor_id: u64, actor_type: String, msg_type: String, reason: String, op: String },
    /// captured ERROR-level event that is not a dead letter
    LogError { message: String, fields: String },
    /// wait-for graph snapshot (verification hook)
    Graph { edges: Vec<(u64, u64)> },
    /// a panic observed by the panic hook (message)
    PanicSeen { msg: String },
    /// client task ended (returned its handles) / panicked
    ClientDone { c: usize },
    ClientPanicked { c: usize, msg: String },
    /// phase markers: 1 = horizon reached (main phase over), 2 = probes done, 3 = epilogue done
    Phase(u8),
    /// a harness-visible strong handle for actor a was created (n = +1) or dropped (n = -1)
    Strong { a: usize, n: i32 },
    /// an in-line law check of the harness failed
    Anomaly { prop: &'static str, what: String },
    DeadLetterCount { n: u64 },
}

#[derive(Serialize, Clone, Debug, PartialEq)]
pub struct Ev {
    pub seq: u64,
    /// virtual milliseconds (simulator) or real microseconds (real-thread engine)
    pub t: u64,
    pub k: K,
}

pub enum Clock {
    Virtual(tokio::time::Instant),
    Real(std::time::Instant),
}

pub struct Recorder {
    inner: Mutex<Inner>,
    clock: Mutex<Clock>,
    /// record every raw poll of on_run futures
    pub log_polls: bool,
}

struct Inner {
    evs: Vec<Ev>,
    next_op: u64,
    overflow: bool,
}

/// A case that produces more events than this is a livelock (e.g. an on_run that is re-invoked
/// forever without awaiting); recording stops and the next on_run invocation panics.
pub const EVENT_LIMIT: usize = 60_000;

impl Recorder {
    pub fn new(clock: Clock, log_polls: bool) -> Arc<Recorder> {
        Arc::new(Recorder {
            inner: Mutex::new(Inner { evs: Vec::with_capacity(256), next_op: 1, overflow: false }),
            clock: Mutex::new(clock),
            log_polls,
        })
    }
    pub fn now(&self) -> u64 {
        match &*self.clock.lock().unwrap_or_else(|e| e.into_inner()) {
            Clock::Virtual(t0) => {
                // only meaningful inside the runtime; outside fall back to 0
                match tokio::runtime::Handle::try_current() {
                    Ok(_) => (tokio::time::Instant::now() - *t0).as_millis() as u64,
                    Err(_) => 0,
                }
            }
            Clock::Real(t0) => t0.elapsed().as_micros() as u64,
        }
    }
    /// record an event, returns its sequence number
    pub fn rec(&self, k: K) -> u64 {
        let t = self.now();
        let mut g = self.inner.lock().unwrap_or_else(|e| e.into_inner());
        let seq = g.evs.len() as u64 + 1;
        if g.evs.len() >= EVENT_LIMIT {
            g.overflow = true;
            return seq;
        }
        g.evs.push(Ev { seq, t, k });
        seq
    }
    pub fn overflowed(&self) -> bool {
        self.inner.lock().unwrap_or_else(|e| e.into_inner()).overflow
    }
    /// record an event that needs to know its own sequence number
    pub fn rec_with<F: FnOnce(u64) -> K>(&self, f: F) -> u64 {
        let t = self.now();
        let mut g = self.inner.lock().unwrap_or_else(|e| e.into_inner());
        let seq = g.evs.len() as u64 + 1;
        if g.evs.len() >= EVENT_LIMIT {
            g.overflow = true;
            return seq;
        }
        g.evs.push(Ev { seq, t, k: f(seq) });
        seq
    }
    pub fn new_op(&self) -> u64 {
        let mut g = self.inner.lock().unwrap_or_else(|e| e.into_inner());
        let n = g.next_op;
        g.next_op += 1;
        n
    }
    pub fn take(&self) -> Vec<Ev> {
        let mut g = self.inner.lock().unwrap_or_else(|e| e.into_inner());
        std::mem::take(&mut g.evs)
    }
    pub fn len(&self) -> usize {
        self.inner.lock().unwrap_or_else(|e| e.into_inner()).evs.len()
    }
}

/// Process-global pointer to the recorder of the case in progress (used by the tracing
/// subscriber and by the panic hook, which have no other way to find it).
static CURRENT: Mutex<Option<Arc<Recorder>>> = Mutex::new(None);

pub fn set_current(r: Option<Arc<Recorder>>) {
    *CURRENT.lock().unwrap_or_else(|e| e.into_inner()) = r;
}

pub fn with_current<F: FnOnce(&Recorder)>(f: F) {
    let cur = CURRENT.lock().unwrap_or_else(|e| e.into_inner()).clone();
    if let Some(r) = cur {
        f(&r);
    }
}

pub fn install_panic_hook() {
    std::panic::set_hook(Box::new(|info| {
        let msg = if let Some(s) = info.payload().downcast_ref::<&str>() {
            s.to_string()
        } else if let Some(s) = info.payload().downcast_ref::<String>() {
            s.clone()
        } else {
            "<non-string panic>".to_string()
        };
        let loc = info.location().map(|l| format!(" @{}:{}", l.file(), l.line())).unwrap_or_default();
        let full = format!("{msg}{loc}");
        let mut recorded = false;
        with_current(|r| {
            r.rec(K::PanicSeen { msg: full.clone() });
            recorded = true;
        });
        if !recorded && !full.starts_with("SIMPANIC") {
            eprintln!("panic outside a case: {full}");
        }
    }));
}

pub fn panic_message(p: &(dyn std::any::Any + Send)) -> String {
    if let Some(s) = p.downcast_ref::<&str>() {
        s.to_string()
    } else if let Some(s) = p.downcast_ref::<String>() {
        s.clone()
    } else {
        "<non-string panic>".to_string()
    }
}
