//! proptest-driven search for one property, shrinking, replay files, evidence parts.

use crate::choices::Tape;
use crate::gen;
use crate::props::{Mode, PropDef};
use crate::scenario::Scenario;
use crate::shrink;
use crate::sim::{self, RunOpts};
use crate::trace::{Ev, K};
use crate::view::{View, Violation};
use proptest::prelude::*;
use proptest::test_runner::{Config, RngSeed, TestCaseError, TestError, TestRunner};
use serde::{Deserialize, Serialize};
use std::cell::RefCell;
use std::collections::{BTreeMap, HashSet};

#[derive(Deserialize, Clone, Debug, Default)]
pub struct KnownFile {
    #[serde(default)]
    pub findings: Vec<Known>,
}

#[derive(Deserialize, Clone, Debug)]
pub struct Known {
    pub property: String,
    /// "known" (suppressed and reported as KNOWN-FINDING) or "fixed" (suppresses nothing)
    pub status: String,
    /// violation kind this entry refers to
    pub kind: String,
    /// substring that must occur in the violation detail (identifies the specific failing history)
    #[serde(default)]
    pub contains: String,
    #[serde(default)]
    pub what: String,
}

impl KnownFile {
    pub fn load(path: &str) -> KnownFile {
        std::fs::read_to_string(path).ok().and_then(|s| serde_json::from_str(&s).ok()).unwrap_or_default()
    }
    pub fn matches(&self, v: &Violation) -> Option<&Known> {
        self.findings
            .iter()
            .find(|k| k.status == "known" && k.property == v.prop && k.kind == v.kind && (k.contains.is_empty() || v.detail.contains(&k.contains)))
    }
}

#[derive(Serialize, Default)]
pub struct Part {
    pub property: String,
    pub tier: String,
    pub seed: u64,
    pub shard: u32,
    pub evaluations: u64,
    pub nontrivial_hashes: Vec<String>,
    pub labels: BTreeMap<String, u64>,
    pub samples: Vec<serde_json::Value>,
    pub violations: Vec<serde_json::Value>,
    pub known_hits: BTreeMap<String, u64>,
    pub replays_run: u64,
    pub wall_s: f64,
    pub watchdog_hits: u64,
    pub profiles: Vec<String>,
    pub rule: String,
    pub shrink_tests: u64,
}

#[derive(Serialize, Deserialize)]
pub struct ReplayFile {
    pub property: String,
    pub kind: String,
    pub detail: String,
    pub scenario: Scenario,
    #[serde(default)]
    pub trace: Vec<String>,
}

pub fn trace_lines(evs: &[Ev]) -> Vec<String> {
    evs.iter()
        .filter(|e| !matches!(e.k, K::Strong { .. }))
        .map(|e| format!("{:4} t={:<5} {}", e.seq, e.t, serde_json::to_string(&e.k).unwrap_or_default()))
        .collect()
}

pub fn summary(v: &View) -> String {
    let ops = v.ops.iter().filter(|o| o.phase == 0).count();
    let handled = v.handler_order.len();
    let ends: Vec<String> = v
        .actors
        .iter()
        .map(|a| match &a.joined {
            Some((_, t, r, _)) => format!("{}@{t}", serde_json::to_string(r).unwrap_or_default()),
            None => "alive".to_string(),
        })
        .collect();
    format!("{} events, {} main-phase ops, {} handler runs, actors: [{}]", v.evs.len(), ops, handled, ends.join(", "))
}

pub struct CaseResult {
    /// the harness watchdog fired (inconclusive; never a violation by itself)
    pub watchdog: bool,
    pub violations: Vec<Violation>,
    pub labels: Vec<&'static str>,
    pub nontrivial: bool,
    pub summary: String,
    pub evs: Vec<Ev>,
}

/// Reference build (default features) running as a child process: answers canonical-trace
/// queries for the C18 differential.
pub struct RefServer {
    child: std::process::Child,
    stdin: std::process::ChildStdin,
    stdout: std::io::BufReader<std::process::ChildStdout>,
}

static REF: std::sync::Mutex<Option<RefServer>> = std::sync::Mutex::new(None);

pub fn start_ref(bin: &str) -> std::io::Result<()> {
    use std::process::{Command, Stdio};
    let mut child = Command::new(bin).arg("serve").stdin(Stdio::piped()).stdout(Stdio::piped()).stderr(Stdio::null()).spawn()?;
    let stdin = child.stdin.take().unwrap();
    let stdout = std::io::BufReader::new(child.stdout.take().unwrap());
    *REF.lock().unwrap() = Some(RefServer { child, stdin, stdout });
    Ok(())
}

pub fn stop_ref() {
    if let Some(mut r) = REF.lock().unwrap().take() {
        drop(r.stdin);
        let _ = r.child.kill();
        let _ = r.child.wait();
    }
}

/// -> (has logical ask cycle, canonical lines) as computed by the reference build
pub fn ref_canon(sc: &Scenario) -> Option<(bool, Vec<String>)> {
    use std::io::{BufRead, Write};
    let mut g = REF.lock().unwrap();
    let r = g.as_mut()?;
    writeln!(r.stdin, "{}", sc.to_json()).ok()?;
    r.stdin.flush().ok()?;
    let mut line = String::new();
    r.stdout.read_line(&mut line).ok()?;
    let v: serde_json::Value = serde_json::from_str(line.trim()).ok()?;
    let cycle = v.get("cycle")?.as_bool()?;
    let lines = v.get("lines")?.as_array()?.iter().map(|x| x.as_str().unwrap_or("").to_string()).collect();
    Some((cycle, lines))
}

/// the server side: one scenario JSON per input line, one JSON answer per output line
pub fn serve() {
    use std::io::{BufRead, Write};
    let stdin = std::io::stdin();
    let stdout = std::io::stdout();
    for line in stdin.lock().lines() {
        let Ok(line) = line else { break };
        let Ok(sc) = serde_json::from_str::<Scenario>(&line) else {
            let _ = writeln!(stdout.lock(), "{{}}");
            continue;
        };
        let out = sim::run_sim(&sc, RunOpts::default());
        let v = View::new(&sc, &out.evs);
        let cycle = crate::monitors2::has_logical_cycle(&v);
        let lines = crate::monitors2::canonical_projected(&v);
        let _ = writeln!(stdout.lock(), "{}", serde_json::json!({"cycle": cycle, "lines": lines}));
        let _ = stdout.lock().flush();
    }
}

pub fn run_case(def: &PropDef, sc: &Scenario) -> CaseResult {
    match def.mode {
        Mode::Single => {}
        Mode::DiffErased => return run_case_diff_erased(def, sc),
        Mode::DiffRef => return run_case_diff_ref(def, sc),
        Mode::RealThreads => return run_case_rt(def, sc),
    }
    let out = sim::run_sim(sc, RunOpts { log_polls: def.log_polls });
    let v = View::new(sc, &out.evs);
    let mut violations = (def.monitor)(&v);
    // a panic in a client task or an unexpected anomaly is a harness-visible failure of any property
    for (c, msg) in &v.client_panics {
        violations.push(crate::view::viol(def.id, "client-task-panicked", format!("client {c} panicked: {msg}")));
    }
    let mut labels = vec![];
    (def.labels)(&v, &mut labels);
    labels.sort();
    labels.dedup();
    let nontrivial = labels.iter().any(|l| def.nontrivial.contains(l));
    let summary = summary(&v);
    drop(v);
    CaseResult { watchdog: false, violations, labels, nontrivial, summary, evs: out.evs }
}

fn run_case_rt(def: &PropDef, sc: &Scenario) -> CaseResult {
    let r = crate::rt::run_rt(sc, 4);
    let v = View::new(sc, &r.out.evs);
    let violations = (def.monitor)(&v);
    let mut labels = vec![];
    (def.labels)(&v, &mut labels);
    labels.sort();
    labels.dedup();
    let nontrivial = labels.iter().any(|l| def.nontrivial.contains(l));
    let summary = summary(&v);
    drop(v);
    CaseResult { watchdog: r.watchdog, violations, labels, nontrivial, summary, evs: r.out.evs }
}

fn run_case_diff_erased(def: &PropDef, sc: &Scenario) -> CaseResult {
    use crate::monitors2::{canonical, first_diff};
    let mut d = sc.clone();
    d.routing = crate::scenario::Routing::Direct;
    let mut e = sc.clone();
    e.routing = crate::scenario::Routing::Erased((sc.hash64() & 0xffff) as u32);
    let od = sim::run_sim(&d, RunOpts::default());
    let oe = sim::run_sim(&e, RunOpts::default());
    let vd = View::new(&d, &od.evs);
    let ve = View::new(&e, &oe.evs);
    let cd = canonical(&vd, true);
    let ce = canonical(&ve, true);
    let mut violations = vec![];
    if let Some((i, x, y)) = first_diff(&cd, &ce) {
        violations.push(crate::view::viol(def.id, "erased-run-differs", format!("canonical traces diverge at line {i}: direct `{x}` vs erased `{y}`")));
    }
    for (c, msg) in ve.client_panics.iter().chain(vd.client_panics.iter()) {
        violations.push(crate::view::viol(def.id, "client-task-panicked", format!("client {c} panicked: {msg}")));
    }
    for (_, p, what) in &ve.anomalies {
        if *p == "C11" {
            violations.push(crate::view::viol(def.id, "erased-identity-mismatch", what.clone()));
        }
    }
    let mut labels = vec![];
    (def.labels)(&ve, &mut labels);
    labels.sort();
    labels.dedup();
    let nontrivial = labels.iter().any(|l| def.nontrivial.contains(l));
    let summary = summary(&ve);
    drop(vd);
    drop(ve);
    CaseResult { watchdog: false, violations, labels, nontrivial, summary, evs: oe.evs }
}

fn run_case_diff_ref(def: &PropDef, sc: &Scenario) -> CaseResult {
    use crate::monitors2::{canonical_projected, first_diff};
    let out = sim::run_sim(sc, RunOpts::default());
    let v = View::new(sc, &out.evs);
    let mine = canonical_projected(&v);
    let mut violations = vec![];
    let mut labels = vec![];
    (def.labels)(&v, &mut labels);
    let mut watchdog = false;
    match ref_canon(sc) {
        // a harness failure, never a verdict about the code under test: inconclusive
        None => watchdog = true,
        Some((cycle, theirs)) => {
            if cycle {
                // precondition of the property: programs with an ask cycle are out of scope
                labels.clear();
                labels.push("excluded_ask_cycle");
            } else if let Some((i, x, y)) = first_diff(&theirs, &mine) {
                violations.push(crate::view::viol(
                    def.id,
                    "feature-build-differs",
                    format!("features [{}]: canonical trace diverges from the default-feature trace at line {i}: default `{x}` vs this build `{y}`", crate::FEATURES),
                ));
            }
        }
    }
    labels.sort();
    labels.dedup();
    let nontrivial = labels.iter().any(|l| def.nontrivial.contains(l));
    let summary = summary(&v);
    drop(v);
    CaseResult { watchdog, violations, labels, nontrivial, summary, evs: out.evs }
}

fn unknown<'a>(viols: &'a [Violation], known: &KnownFile) -> Option<&'a Violation> {
    viols.iter().find(|v| known.matches(v).is_none())
}

pub struct RunArgs {
    pub tier: String,
    pub seed: u64,
    pub shard: u32,
    pub cases: u32,
    pub replay_dir: String,
    pub replay_out: String,
    pub known: KnownFile,
}

/// Returns (part, exit_code)
pub fn run_prop(def: &PropDef, args: &RunArgs) -> (Part, i32) {
    let t0 = std::time::Instant::now();
    let mut part = Part {
        property: def.id.to_string(),
        tier: args.tier.clone(),
        seed: args.seed,
        shard: args.shard,
        rule: def.rule.to_string(),
        profiles: def.profiles.iter().map(|p| p.name.to_string()).collect(),
        ..Default::default()
    };
    let mut exit = 0;

    // 1. saved replays of this property first
    if let Ok(rd) = std::fs::read_dir(&args.replay_dir) {
        let mut files: Vec<_> = rd.flatten().map(|e| e.path()).filter(|p| p.file_name().map(|n| n.to_string_lossy().starts_with(def.id)).unwrap_or(false)).collect();
        files.sort();
        for f in files {
            let Ok(s) = std::fs::read_to_string(&f) else { continue };
            let Ok(rf) = serde_json::from_str::<ReplayFile>(&s) else { continue };
            // a replay belongs to the engine that produced it
            if rf.scenario.needs_rt() != def.is_rt() {
                continue;
            }
            part.replays_run += 1;
            part.evaluations += 1;
            let r = run_case(def, &rf.scenario);
            for v in &r.violations {
                if let Some(k) = args.known.matches(v) {
                    *part.known_hits.entry(format!("{} {}", k.kind, k.contains)).or_default() += 1;
                }
            }
            if let Some(v) = unknown(&r.violations, &args.known) {
                println!("VIOLATION property={} replay={}", def.id, f.display());
                part.violations.push(serde_json::json!({"kind": v.kind, "detail": v.detail, "replay": f.display().to_string(), "source": "saved replay"}));
                exit = 1;
            }
        }
    }
    if exit != 0 {
        part.wall_s = t0.elapsed().as_secs_f64();
        return (part, exit);
    }

    // 2. generated search
    struct Stats {
        evaluations: u64,
        hashes: HashSet<u64>,
        labels: BTreeMap<String, u64>,
        samples: Vec<serde_json::Value>,
        known_hits: BTreeMap<String, u64>,
        failed: Option<(Scenario, Violation)>,
        watchdog: u64,
    }
    let stats = RefCell::new(Stats { evaluations: 0, hashes: HashSet::new(), labels: BTreeMap::new(), samples: vec![], known_hits: BTreeMap::new(), failed: None, watchdog: 0 });
    let seed = args.seed.wrapping_mul(1_000_003).wrapping_add(args.shard as u64).wrapping_add(0x5EED);
    let mut runner = TestRunner::new(Config {
        cases: args.cases,
        rng_seed: RngSeed::Fixed(seed),
        failure_persistence: None,
        max_shrink_iters: if def.is_rt() || def.id == "C20" { 40 } else { 3000 },
        max_global_rejects: 0,
        ..Config::default()
    });
    let nprof = def.profiles.len();
    let strat = (0..nprof, proptest::collection::vec(any::<u32>(), def.tape_len / 3..=def.tape_len));
    let result = runner.run(&strat, |(pi, tape)| {
        // a run in which the harness watchdog keeps firing is inconclusive already: give up early
        // instead of waiting out the slack case after case
        if stats.borrow().watchdog >= 5 {
            return Err(TestCaseError::reject("harness watchdog fired 5 times"));
        }
        let sc = gen::gen(&def.profiles[pi], &mut Tape::new(&tape));
        let r = run_case(def, &sc);
        let mut st = stats.borrow_mut();
        let counting = st.failed.is_none();
        if counting {
            st.evaluations += 1;
            if r.watchdog {
                st.watchdog += 1;
            }
            for l in &r.labels {
                *st.labels.entry(l.to_string()).or_default() += 1;
            }
            if r.nontrivial {
                let h = sc.hash64();
                if st.hashes.insert(h) && st.samples.len() < 3 {
                    st.samples.push(serde_json::json!({"scenario": sc, "labels": r.labels, "summary": r.summary}));
                }
            }
            for v in &r.violations {
                if let Some(k) = args.known.matches(v) {
                    *st.known_hits.entry(format!("{} {}", k.kind, k.contains)).or_default() += 1;
                }
            }
        }
        match unknown(&r.violations, &args.known) {
            Some(v) => {
                if counting {
                    st.failed = Some((sc.clone(), v.clone()));
                }
                Err(TestCaseError::fail(v.kind))
            }
            None => Ok(()),
        }
    });
    let st = stats.into_inner();
    part.evaluations += st.evaluations;
    part.nontrivial_hashes = st.hashes.iter().map(|h| format!("{h:016x}")).collect();
    part.labels = st.labels;
    part.samples = st.samples;
    part.watchdog_hits = st.watchdog;
    if st.watchdog > 0 && exit == 0 {
        eprintln!("harness watchdog fired in {} case(s): inconclusive", st.watchdog);
        exit = 2;
    }
    for (k, n) in st.known_hits {
        *part.known_hits.entry(k).or_default() += n;
    }

    if let Err(e) = result {
        let (tape_sc, first) = match (&e, st.failed) {
            (TestError::Fail(_, (pi, tape)), Some((_, v))) => (gen::gen(&def.profiles[*pi], &mut Tape::new(tape)), v),
            (_, Some((sc, v))) => (sc, v),
            (TestError::Abort(r), None) => {
                eprintln!("proptest aborted: {r}");
                part.wall_s = t0.elapsed().as_secs_f64();
                return (part, 2);
            }
            (TestError::Fail(..), None) => unreachable!(),
        };
        // 3. structural shrinking: same property, same violation kind, still not a known finding
        let kind = first.kind;
        let known = &args.known;
        let mut pred = |sc: &Scenario| -> bool {
            let r = std::panic::catch_unwind(std::panic::AssertUnwindSafe(|| run_case(def, sc)));
            match r {
                Ok(r) => r.violations.iter().any(|v| v.kind == kind && known.matches(v).is_none()),
                Err(_) => false,
            }
        };
        let start = if pred(&tape_sc) { tape_sc } else { tape_sc };
        let (min, tests) = if pred(&start) { shrink::shrink(&start, &mut pred, if def.is_rt() { 150 } else { 4000 }) } else { (start, 0) };
        part.shrink_tests = tests as u64;
        let r = run_case(def, &min);
        let v = r.violations.iter().find(|v| v.kind == kind).cloned().unwrap_or(first);
        let rf = ReplayFile { property: def.id.to_string(), kind: v.kind.to_string(), detail: v.detail.clone(), scenario: min.clone(), trace: trace_lines(&r.evs) };
        let _ = std::fs::create_dir_all(&args.replay_out);
        let path = format!("{}/{}-{:016x}.json", args.replay_out, def.id, min.hash64());
        let _ = std::fs::write(&path, serde_json::to_string_pretty(&rf).unwrap());
        println!("VIOLATION property={} replay={}", def.id, path);
        println!("  kind={} detail={}", v.kind, v.detail);
        part.violations.push(serde_json::json!({"kind": v.kind, "detail": v.detail, "replay": path, "source": "generated"}));
        exit = 1;
    }
    part.wall_s = t0.elapsed().as_secs_f64();
    (part, exit)
}

/// Re-run exactly one saved scenario (no generator involved).
pub fn replay(def: &PropDef, path: &str, known: &KnownFile) -> i32 {
    let s = match std::fs::read_to_string(path) {
        Ok(s) => s,
        Err(e) => {
            eprintln!("cannot read {path}: {e}");
            return 2;
        }
    };
    let sc: Scenario = match serde_json::from_str::<ReplayFile>(&s) {
        Ok(rf) => rf.scenario,
        Err(_) => match serde_json::from_str::<Scenario>(&s) {
            Ok(sc) => sc,
            Err(e) => {
                eprintln!("cannot parse {path}: {e}");
                return 2;
            }
        },
    };
    let r = run_case(def, &sc);
    for l in trace_lines(&r.evs) {
        println!("{l}");
    }
    println!("labels: {:?}", r.labels);
    let mut code = 0;
    for v in &r.violations {
        if let Some(k) = known.matches(v) {
            println!("KNOWN-FINDING: property={} {} {}", def.id, k.kind, k.contains);
        } else {
            println!("VIOLATION property={} replay={}", def.id, path);
            println!("  kind={} detail={}", v.kind, v.detail);
            code = 1;
        }
    }
    code
}
