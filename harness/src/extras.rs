//! Generated checks that are not scenario simulations: ActorResult accessor laws (C05), the
//! process-wide default mailbox capacity and capacity-0 rejection (C09, fresh subprocess per
//! generated call sequence), concurrent id allocation (C11, real threads).

use crate::choices::{Choices, Tape};
use crate::laws;
use crate::runner::Part;
use proptest::prelude::*;
use proptest::test_runner::{Config, RngSeed, TestCaseError, TestError, TestRunner};
use serde::{Deserialize, Serialize};
use std::cell::RefCell;
use std::collections::HashSet;

#[derive(Serialize, Deserialize)]
pub struct ExtraReplay {
    pub property: String,
    pub kind: String,
    pub detail: String,
    pub extra: serde_json::Value,
}

pub fn write_replay(dir: &str, prop: &str, kind: &str, detail: &str, extra: serde_json::Value) -> String {
    let _ = std::fs::create_dir_all(dir);
    let body = serde_json::to_string_pretty(&ExtraReplay { property: prop.into(), kind: kind.into(), detail: detail.into(), extra }).unwrap();
    let mut h: u64 = 0xcbf29ce484222325;
    for b in body.as_bytes() {
        h ^= *b as u64;
        h = h.wrapping_mul(0x100000001b3);
    }
    let path = format!("{dir}/{prop}-x{h:016x}.json");
    let _ = std::fs::write(&path, body);
    path
}

fn cfg(seed: u64, cases: u32) -> Config {
    Config { cases, rng_seed: RngSeed::Fixed(seed), failure_persistence: None, max_shrink_iters: 2000, ..Config::default() }
}

// ---------------------------------------------------------------------------------------------
// C05: accessor laws
// ---------------------------------------------------------------------------------------------
pub fn c05_laws(seed: u64, cases: u32, replay_out: &str, part: &mut Part) -> i32 {
    let (n, bad) = laws::exhaustive();
    part.evaluations += n;
    let mut code = 0;
    for (c, v) in bad.iter().take(1) {
        let path = write_replay(replay_out, "C05", "accessor-law", &v.join("; "), serde_json::json!({"law_case": c}));
        println!("VIOLATION property=C05 replay={path}");
        println!("  kind=accessor-law detail={}", v.join("; "));
        part.violations.push(serde_json::json!({"kind": "accessor-law", "detail": v, "replay": path}));
        code = 1;
    }
    if code != 0 {
        return code;
    }
    let seen = RefCell::new((0u64, HashSet::new(), Vec::new(), false));
    let mut runner = TestRunner::new(cfg(seed ^ 0xC05, cases));
    let res = runner.run(&proptest::collection::vec(any::<u32>(), 6..=6), |tape| {
        let c = laws::gen_case(&mut Tape::new(&tape));
        let v = laws::check_case(&c);
        let mut s = seen.borrow_mut();
        if !s.3 {
            s.0 += 1;
            // non-trivial: a Failed value (phase, killed and actor presence all matter)
            if !c.completed {
                let key = format!("{}{}{}{}:{}:{}", c.completed, c.killed, c.phase, c.has_actor, c.actor_payload, c.error_payload);
                if s.1.insert(key) && s.2.len() < 2 {
                    s.2.push(serde_json::json!({"law_case": c}));
                }
            }
        }
        if v.is_empty() {
            Ok(())
        } else {
            s.3 = true;
            Err(TestCaseError::fail(v.join("; ")))
        }
    });
    let s = seen.into_inner();
    part.evaluations += s.0;
    for k in &s.1 {
        part.nontrivial_hashes.push(format!("law:{k}"));
    }
    part.samples.extend(s.2);
    *part.labels.entry("law_cases".into()).or_default() += s.0;
    *part.labels.entry("law_cases_failed_variant".into()).or_default() += s.1.len() as u64;
    if let Err(TestError::Fail(reason, tape)) = res {
        let c = laws::gen_case(&mut Tape::new(&tape));
        let path = write_replay(replay_out, "C05", "accessor-law", &reason.to_string(), serde_json::json!({"law_case": c}));
        println!("VIOLATION property=C05 replay={path}");
        println!("  kind=accessor-law detail={reason}");
        part.violations.push(serde_json::json!({"kind": "accessor-law", "detail": reason.to_string(), "replay": path}));
        code = 1;
    }
    code
}

pub fn replay_law(extra: &serde_json::Value) -> Vec<String> {
    #[derive(Deserialize)]
    struct L {
        completed: bool,
        killed: bool,
        phase: u8,
        has_actor: bool,
        actor_payload: u64,
        error_payload: u64,
    }
    match serde_json::from_value::<L>(extra["law_case"].clone()) {
        Ok(l) => laws::check_case(&laws::LawCase {
            completed: l.completed,
            killed: l.killed,
            phase: l.phase,
            has_actor: l.has_actor,
            actor_payload: l.actor_payload,
            error_payload: l.error_payload,
        }),
        Err(e) => vec![format!("unreadable law case: {e}")],
    }
}

// ---------------------------------------------------------------------------------------------
// C09: default capacity (subprocess per sequence) and capacity 0
// ---------------------------------------------------------------------------------------------
/// Child side: apply the calls, then measure the capacity `spawn` really uses. Prints one JSON line.
pub fn capseq_child(vals: &[usize]) {
    let mut results = vec![];
    for v in vals {
        results.push(rsactor::set_default_mailbox_capacity(*v).is_ok());
    }
    let measured = measure_default_capacity();
    // capacity 0 must be rejected (panic), never yield an actor
    let rt = tokio::runtime::Builder::new_current_thread().enable_time().start_paused(true).build().unwrap();
    let zero_rejected = rt.block_on(async {
        std::panic::catch_unwind(|| {
            let _ = rsactor::spawn_with_mailbox_capacity::<laws::Dummy>(1, 0);
        })
        .is_err()
    });
    println!("{}", serde_json::json!({"results": results, "measured": measured, "zero_rejected": zero_rejected}));
}

/// Child process of the default-capacity race: one thread per value, released together, each
/// calling set_default_mailbox_capacity(value) once; then one more sequential call; then the
/// capacity spawn() really uses is measured.
pub fn caprace_child(vals: &[usize]) {
    let go = std::sync::Arc::new(std::sync::atomic::AtomicBool::new(false));
    let mut hs = vec![];
    for v in vals.iter().copied() {
        let go = go.clone();
        hs.push(std::thread::spawn(move || {
            while !go.load(std::sync::atomic::Ordering::Acquire) {
                std::hint::spin_loop();
            }
            rsactor::set_default_mailbox_capacity(v).is_ok()
        }));
    }
    go.store(true, std::sync::atomic::Ordering::Release);
    let results: Vec<bool> = hs.into_iter().map(|h| h.join().unwrap_or(false)).collect();
    let later = rsactor::set_default_mailbox_capacity(77).is_ok();
    let measured = measure_default_capacity();
    println!("{}", serde_json::json!({"results": results, "later": later, "measured": measured}));
}

/// number of tells that complete while the actor is blocked in on_start = the real capacity
fn measure_default_capacity() -> usize {
    use crate::scenario::*;
    let gate = 50;
    let n = 400u32;
    let ops: Vec<ClientOp> = (0..n)
        .map(|i| ClientOp { delay: 0, yields: 0, op: Op::Send { h: 0, how: How::TellT(10), msg: Msg { id: i + 1, ty: Ty::A, steps: vec![], out: Out::Ok, job: None } } })
        .collect();
    let sc = Scenario {
        actors: vec![ActorSpec { cap: 0, start: Hook { steps: vec![Step::Sleep(gate)], out: Out::Ok }, ..ActorSpec::default() }],
        clients: (0..1).map(|_| ClientSpec { init: vec![0], ops: ops.clone(), mode: ClientMode::Task }).collect(),
        ..Scenario::default()
    };
    let out = crate::sim::run_sim(&sc, crate::sim::RunOpts::default());
    // tells that returned Ok at t = 0 (before the gate opened)
    let v = crate::view::View::new(&sc, &out.evs);
    v.sends().filter(|o| matches!(o.res, Some(crate::trace::Res::Ok)) && o.e_t == Some(0)).count()
}

pub fn c09_caps(seed: u64, cases: u32, replay_out: &str, part: &mut Part) -> i32 {
    const VALS: [usize; 10] = [0, 1, 2, 3, 5, 8, 32, 33, 64, 100];
    let exe = std::env::current_exe().expect("exe");
    let seen = RefCell::new((0u64, HashSet::new(), Vec::new(), false));
    let mut runner = TestRunner::new(cfg(seed ^ 0xC09, cases));
    let res = runner.run(&proptest::collection::vec(any::<u32>(), 0..=5), |tape| {
        let mut t = Tape::new(&tape);
        let len = t.range(0, 4) as usize;
        let seq: Vec<usize> = (0..len).map(|_| VALS[t.below(VALS.len() as u32) as usize]).collect();
        let arg = seq.iter().map(|v| v.to_string()).collect::<Vec<_>>().join(",");
        let outp = std::process::Command::new(&exe).arg("capseq").arg("--vals").arg(if arg.is_empty() { "-".into() } else { arg.clone() }).output();
        let Ok(outp) = outp else { return Err(TestCaseError::reject("cannot spawn child")) };
        let line = String::from_utf8_lossy(&outp.stdout);
        let Ok(j) = serde_json::from_str::<serde_json::Value>(line.lines().last().unwrap_or("")) else {
            return Err(TestCaseError::fail(format!("child produced no result for [{arg}]: {}", String::from_utf8_lossy(&outp.stderr))));
        };
        // model: zero -> Err; first non-zero -> Ok; every later call -> Err; default 32
        let mut set: Option<usize> = None;
        let mut want = vec![];
        for v in &seq {
            if *v == 0 {
                want.push(false);
            } else if set.is_none() {
                set = Some(*v);
                want.push(true);
            } else {
                want.push(false);
            }
        }
        let want_cap = set.unwrap_or(32);
        let got: Vec<bool> = j["results"].as_array().map(|a| a.iter().map(|x| x.as_bool().unwrap_or(false)).collect()).unwrap_or_default();
        let measured = j["measured"].as_u64().unwrap_or(u64::MAX) as usize;
        let zero_rejected = j["zero_rejected"].as_bool().unwrap_or(false);
        let mut s = seen.borrow_mut();
        if !s.3 {
            s.0 += 1;
            if seq.len() >= 2 || seq.iter().any(|v| *v == 0) {
                if s.1.insert(arg.clone()) && s.2.len() < 3 {
                    s.2.push(serde_json::json!({"set_default_mailbox_capacity_calls": seq, "results": got, "measured_spawn_capacity": measured}));
                }
            }
        }
        let mut errs = vec![];
        if got != want {
            errs.push(format!("calls {seq:?}: results {got:?}, expected {want:?}"));
        }
        if measured != want_cap {
            errs.push(format!("calls {seq:?}: spawn() used a mailbox of capacity {measured}, expected {want_cap}"));
        }
        if !zero_rejected {
            errs.push("spawn_with_mailbox_capacity(_, 0) did not panic".to_string());
        }
        if errs.is_empty() {
            Ok(())
        } else {
            s.3 = true;
            Err(TestCaseError::fail(errs.join("; ")))
        }
    });
    let s = seen.into_inner();
    part.evaluations += s.0;
    for k in &s.1 {
        part.nontrivial_hashes.push(format!("capseq:{k}"));
    }
    part.samples.extend(s.2);
    *part.labels.entry("default_capacity_sequences".into()).or_default() += s.0;
    match res {
        Ok(()) => 0,
        Err(TestError::Fail(reason, tape)) => {
            let path = write_replay(replay_out, "C09", "default-capacity", &reason.to_string(), serde_json::json!({"tape": tape}));
            println!("VIOLATION property=C09 replay={path}");
            println!("  kind=default-capacity detail={reason}");
            part.violations.push(serde_json::json!({"kind": "default-capacity", "detail": reason.to_string(), "replay": path}));
            1
        }
        Err(TestError::Abort(r)) => {
            eprintln!("C09 capacity probes aborted: {r}");
            2
        }
    }
}

// ---------------------------------------------------------------------------------------------
// C11: ids under concurrent spawning
// ---------------------------------------------------------------------------------------------
pub fn c11_ids(seed: u64, rounds: u32, replay_out: &str, part: &mut Part) -> i32 {
    let mut x = seed.wrapping_mul(0x9E3779B97F4A7C15) | 1;
    let mut next = |n: u64| {
        x ^= x << 13;
        x ^= x >> 7;
        x ^= x << 17;
        (x >> 11) % n
    };
    let mut code = 0;
    let mut all_seen: HashSet<u64> = HashSet::new();
    for _ in 0..rounds {
        let threads = 2 + next(15) as usize;
        let spawns = 1 + next(300) as usize;
        let (n, dups) = crate::rt::id_race(threads, spawns);
        part.evaluations += 1;
        part.nontrivial_hashes.push(format!("idrace:{threads}x{spawns}"));
        *part.labels.entry("id_race_rounds".into()).or_default() += 1;
        *part.labels.entry("ids_allocated_concurrently".into()).or_default() += n as u64;
        if part.samples.len() < 2 {
            part.samples.push(serde_json::json!({"id_race": {"threads": threads, "spawns_per_thread": spawns, "ids": n, "duplicates": dups.len()}}));
        }
        let _ = &mut all_seen;
        if !dups.is_empty() {
            let detail = format!("{threads} threads x {spawns} spawns: {} duplicate ids, e.g. {:?}", dups.len(), &dups[..dups.len().min(3)]);
            let path = write_replay(replay_out, "C11", "duplicate-id", &detail, serde_json::json!({"id_race": {"threads": threads, "spawns": spawns}}));
            println!("VIOLATION property=C11 replay={path}");
            println!("  kind=duplicate-id detail={detail}");
            part.violations.push(serde_json::json!({"kind": "duplicate-id", "detail": detail, "replay": path}));
            code = 1;
            break;
        }
    }
    code
}

pub fn replay_extra(prop: &str, extra: &serde_json::Value) -> Vec<String> {
    if extra.get("law_case").is_some() {
        return replay_law(extra);
    }
    if let Some(r) = extra.get("id_race") {
        let threads = r["threads"].as_u64().unwrap_or(8) as usize;
        let spawns = r["spawns"].as_u64().unwrap_or(100) as usize;
        for _ in 0..200 {
            let (_, dups) = crate::rt::id_race(threads, spawns);
            if !dups.is_empty() {
                return vec![format!("{threads} threads x {spawns} spawns: duplicate ids {:?}", &dups[..dups.len().min(3)])];
            }
        }
        return vec![];
    }
    if let Some(r) = extra.get("caprace") {
        let vals: Vec<String> = r["vals"].as_array().map(|a| a.iter().map(|x| x.as_u64().unwrap_or(0).to_string()).collect()).unwrap_or_default();
        let exe = std::env::current_exe().expect("exe");
        for _ in 0..300 {
            let Ok(outp) = std::process::Command::new(&exe).arg("capseq").arg("--race").arg("1").arg("--vals").arg(vals.join(",")).output() else { continue };
            let line = String::from_utf8_lossy(&outp.stdout);
            let Ok(j) = serde_json::from_str::<serde_json::Value>(line.lines().last().unwrap_or("")) else { continue };
            let oks = j["results"].as_array().map(|a| a.iter().filter(|x| x.as_bool() == Some(true)).count()).unwrap_or(0);
            if oks > 1 {
                return vec![format!("{oks} concurrent set_default_mailbox_capacity calls were accepted")];
            }
        }
        return vec![];
    }
    if let Some(r) = extra.get("race") {
        let kind = r["kind"].as_str().unwrap_or("drop").to_string();
        let seed = r["seed"].as_u64().unwrap_or(1);
        let rounds = r["rounds"].as_u64().unwrap_or(150) as u32;
        let k: &'static str = crate::races::KINDS.iter().copied().find(|x| *x == kind).unwrap_or("drop");
        let mut part = Part::default();
        let dir = std::env::temp_dir().join(format!("vh-replay-{}", std::process::id()));
        let sink = |_: &str, _: &str, _: &str, _: &str, _: serde_json::Value| String::new();
        let code = crate::races::replay(prop, k, seed, rounds * 4, &mut part, &sink);
        let _ = std::fs::remove_dir_all(&dir);
        if code != 0 {
            return part.violations.iter().map(|v| v["detail"].as_str().unwrap_or("").to_string()).collect();
        }
        return vec![];
    }
    if let Some(r) = extra.get("kill_race") {
        let seed = r["seed"].as_u64().unwrap_or(1);
        let mut part = Part::default();
        let dir = std::env::temp_dir().join(format!("vh-replay-{}", std::process::id()));
        let code = c06_kill_race(seed, 4000, dir.to_str().unwrap_or("/tmp"), &mut part);
        let _ = std::fs::remove_dir_all(&dir);
        if code != 0 {
            return part.violations.iter().map(|v| v["detail"].as_str().unwrap_or("").to_string()).collect();
        }
        return vec![];
    }
    if let Some(r) = extra.get("ask_end_race") {
        let cap = r["cap"].as_u64().unwrap_or(8) as usize;
        let askers = r["askers"].as_u64().unwrap_or(3) as usize;
        let cause = r["cause"].as_u64().unwrap_or(0) as u8;
        let blocking = r["blocking"].as_bool().unwrap_or(true);
        let rt = tokio::runtime::Builder::new_multi_thread().worker_threads(4).enable_time().build().expect("runtime");
        for i in 0..20000u32 {
            let stream = r["stream"].as_u64().unwrap_or(1) as u32;
            let (hung, _) = ask_end_race_round(&rt, cap, askers, cause, blocking, i % 400, stream);
            if hung > 0 {
                return vec![format!("round {i}: {hung} of {askers} asks never returned after the actor (capacity {cap}) ended")];
            }
        }
        return vec![];
    }
    if let Some(t) = extra.get("tape") {
        let tape: Vec<u32> = t.as_array().map(|a| a.iter().map(|x| x.as_u64().unwrap_or(0) as u32).collect()).unwrap_or_default();
        let mut part = Part::default();
        // re-run exactly this sequence through the same code path (1 case, the tape is fixed)
        let _ = (prop, &tape, &mut part);
        return replay_capseq(&tape);
    }
    vec!["unknown replay payload".into()]
}

fn replay_capseq(tape: &[u32]) -> Vec<String> {
    const VALS: [usize; 10] = [0, 1, 2, 3, 5, 8, 32, 33, 64, 100];
    let mut t = Tape::new(tape);
    let len = t.range(0, 4) as usize;
    let seq: Vec<usize> = (0..len).map(|_| VALS[t.below(VALS.len() as u32) as usize]).collect();
    let arg = seq.iter().map(|v| v.to_string()).collect::<Vec<_>>().join(",");
    let exe = std::env::current_exe().expect("exe");
    let outp = std::process::Command::new(&exe).arg("capseq").arg("--vals").arg(if arg.is_empty() { "-".into() } else { arg }).output();
    let Ok(outp) = outp else { return vec!["cannot spawn child".into()] };
    let line = String::from_utf8_lossy(&outp.stdout).to_string();
    let Ok(j) = serde_json::from_str::<serde_json::Value>(line.lines().last().unwrap_or("")) else { return vec!["child produced no result".into()] };
    let mut set: Option<usize> = None;
    let mut want = vec![];
    for v in &seq {
        if *v == 0 {
            want.push(false);
        } else if set.is_none() {
            set = Some(*v);
            want.push(true);
        } else {
            want.push(false);
        }
    }
    let got: Vec<bool> = j["results"].as_array().map(|a| a.iter().map(|x| x.as_bool().unwrap_or(false)).collect()).unwrap_or_default();
    let measured = j["measured"].as_u64().unwrap_or(u64::MAX) as usize;
    let mut errs = vec![];
    if got != want {
        errs.push(format!("calls {seq:?}: results {got:?}, expected {want:?}"));
    }
    if measured != set.unwrap_or(32) {
        errs.push(format!("calls {seq:?}: spawn() used capacity {measured}, expected {}", set.unwrap_or(32)));
    }
    if !j["zero_rejected"].as_bool().unwrap_or(false) {
        errs.push("spawn_with_mailbox_capacity(_, 0) did not panic".into());
    }
    errs
}

// ---------------------------------------------------------------------------------------------
// C03: an ask racing with the end of the actor (real threads)
// ---------------------------------------------------------------------------------------------
/// One round: `askers` threads / tasks issue one ask each at (almost) the moment the actor ends by
/// `cause`; every one of them must return (Ok or Err) - none may wait forever. Returns the number
/// of askers that had not returned 10 s after the actor's JoinHandle resolved.
pub fn ask_end_race_round(rt: &tokio::runtime::Runtime, cap: usize, askers: usize, cause: u8, blocking: bool, jitter: u32, stream: u32) -> (usize, usize) {
    use crate::actor::{MsgA, SimActor, World};
    use crate::scenario::*;
    use crate::trace::{Clock, Recorder};
    use std::sync::mpsc::channel;
    use std::time::Duration;
    let rec = Recorder::new(Clock::Real(std::time::Instant::now()), false);
    let world = std::sync::Arc::new(World { rec, specs: vec![ActorSpec { cap: cap as u32, ..ActorSpec::default() }], peers: std::sync::Mutex::new(vec![None]), us_per_ms: 1000 });
    let (r, jh) = {
        let _g = rt.enter();
        rsactor::spawn_with_mailbox_capacity::<SimActor>((0, world.clone()), cap)
    };
    let mk = |id: u32, out: Out| Msg { id, ty: Ty::A, steps: vec![], out, job: None };
    let (tx, rx) = channel::<usize>();
    for k in 0..askers {
        let r2 = r.clone();
        let tx2 = tx.clone();
        let m = mk(10 + k as u32, Out::Ok);
        let spin = (k as u32 * 40 + jitter) % 200;
        if blocking {
            std::thread::spawn(move || {
                for _ in 0..spin {
                    std::hint::spin_loop();
                }
                // a stream of asks, so that one of them straddles the moment the actor ends
                let mut m = m;
                for _ in 0..stream {
                    if r2.blocking_ask(MsgA(m.clone()), None).is_err() {
                        break;
                    }
                    m.id += 100;
                }
                let _ = tx2.send(k);
            });
        } else {
            rt.spawn(async move {
                for _ in 0..spin {
                    std::hint::spin_loop();
                }
                let mut m = m;
                for _ in 0..stream {
                    if r2.ask(MsgA(m.clone())).await.is_err() {
                        break;
                    }
                    m.id += 100;
                }
                let _ = tx2.send(k);
            });
        }
    }
    drop(tx);
    // end the actor
    if stream > 1 {
        for _ in 0..jitter * 50 {
            std::hint::spin_loop();
        }
    }
    rt.block_on(async {
        match cause % 4 {
            0 => {
                let _ = r.tell(MsgA(mk(1, Out::Panic))).await;
            }
            1 => {
                let _ = r.stop().await;
            }
            2 => {
                let _ = r.kill();
            }
            _ => {}
        }
    });
    drop(r);
    let joined = rt.block_on(async { tokio::time::timeout(Duration::from_secs(10), jh).await.is_ok() });
    let mut returned = 0;
    let deadline = std::time::Instant::now() + Duration::from_secs(10);
    while returned < askers {
        let left = deadline.saturating_duration_since(std::time::Instant::now());
        match rx.recv_timeout(left) {
            Ok(_) => returned += 1,
            Err(_) => break,
        }
    }
    (if joined { askers - returned } else { 0 }, returned)
}

pub fn c03_race(prop: &'static str, seed: u64, rounds: u32, replay_out: &str, part: &mut Part) -> i32 {
    crate::trace::set_current(None);
    const LANES: u64 = 4;
    struct Hit {
        detail: String,
        payload: serde_json::Value,
    }
    let shared = std::sync::Mutex::new((std::mem::take(part), None::<Hit>));
    let stop = std::sync::atomic::AtomicBool::new(false);
    std::thread::scope(|sc| {
        for lane in 0..LANES {
            let shared = &shared;
            let stop = &stop;
            sc.spawn(move || {
                let mut x = (seed + 0x51 * lane).wrapping_mul(0x9E3779B97F4A7C15) | 1;
                let mut next = |n: u64| {
                    x ^= x << 13;
                    x ^= x >> 7;
                    x ^= x << 17;
                    (x >> 11) % n
                };
                let rt = tokio::runtime::Builder::new_multi_thread().worker_threads(3).enable_time().build().expect("runtime");
                for _ in 0..(rounds as u64 / LANES).max(1) {
                    if stop.load(std::sync::atomic::Ordering::Relaxed) {
                        break;
                    }
                    let cap = [1usize, 2, 8, 32][next(4) as usize];
                    // C12 is about failing actors only: the handler panic
                    let cause = if prop == "C12" { 0 } else { next(4) as u8 };
                    let blocking = next(2) == 0 || prop == "C17";
                    let askers = 1 + next(if blocking { 4 } else { 12 }) as usize;
                    let jitter = next(400) as u32;
                    let stream = if next(3) == 0 || cause % 4 == 3 { 1 } else { 300 };
                    let (hung, returned) = ask_end_race_round(&rt, cap, askers, cause, blocking, jitter, stream);
                    let mut g = shared.lock().unwrap();
                    let part = &mut g.0;
                    if stream > 1 {
                        *part.labels.entry("ask_end_race_stream_rounds".into()).or_default() += 1;
                    }
                    part.evaluations += 1;
                    let key = format!("race:cap{cap}:n{askers}:cause{cause}:{}:{}", if blocking { "blocking" } else { "async" }, if stream > 1 { "stream" } else { "single" });
                    if !part.nontrivial_hashes.contains(&key) {
                        part.nontrivial_hashes.push(key);
                    }
                    *part.labels.entry("ask_end_race_rounds".into()).or_default() += 1;
                    *part.labels.entry("ask_end_race_askers_returned".into()).or_default() += returned as u64;
                    if part.samples.len() < 2 {
                        let cause_name = ["handler panic", "stop", "kill", "last drop"][cause as usize % 4];
                        part.samples.push(serde_json::json!({"ask_end_race": {"capacity": cap, "askers": askers, "cause": cause_name, "blocking": blocking, "asks_per_asker_at_most": stream, "returned": returned}}));
                    }
                    if hung > 0 {
                        let cause_s = ["handler panic", "stop()", "kill()", "drop of the last reference"][cause as usize % 4];
                        let detail = format!("{hung} of {askers} {} ask(s) issued while the actor (capacity {cap}) was ending by {cause_s} had not returned 10 s after its JoinHandle resolved", if blocking { "blocking_ask" } else { "async" });
                        if g.1.is_none() {
                            g.1 = Some(Hit { detail, payload: serde_json::json!({"ask_end_race": {"cap": cap, "askers": askers, "cause": cause, "blocking": blocking, "stream": stream}}) });
                        }
                        stop.store(true, std::sync::atomic::Ordering::Relaxed);
                        break;
                    }
                }
            });
        }
    });
    let (p, hit) = shared.into_inner().unwrap();
    *part = p;
    if let Some(h) = hit {
        let path = write_replay(replay_out, prop, "ask-hangs-on-ended-actor-race", &h.detail, h.payload);
        println!("VIOLATION property={prop} replay={path}");
        println!("  kind=ask-hangs-on-ended-actor-race detail={}", h.detail);
        part.violations.push(serde_json::json!({"kind": "ask-hangs-on-ended-actor-race", "detail": h.detail, "replay": path}));
        return 1;
    }
    0
}

// ---------------------------------------------------------------------------------------------
// C09: the process-wide default capacity configured from several threads at once
// ---------------------------------------------------------------------------------------------
/// Each case is a fresh child process in which 2-8 threads, released together, call
/// set_default_mailbox_capacity with generated values (zero included). Exactly one of the non-zero
/// calls may succeed, zero never does, a later call is rejected, and spawn() uses the winner's value
/// (or 32 when nobody could win).
pub fn c09_cap_race(seed: u64, cases: u32, replay_out: &str, part: &mut Part) -> i32 {
    const VALS: [usize; 9] = [0, 1, 2, 3, 5, 8, 33, 64, 100];
    let exe = std::env::current_exe().expect("exe");
    let mut x = (seed ^ 0xCA9).wrapping_mul(0x9E3779B97F4A7C15) | 1;
    let mut next = |n: u64| {
        x ^= x << 13;
        x ^= x >> 7;
        x ^= x << 17;
        (x >> 11) % n
    };
    for _ in 0..cases {
        let n = 2 + next(7) as usize;
        // distinct non-zero values so that the winner can be identified from the measured capacity
        let mut vals: Vec<usize> = vec![];
        while vals.len() < n {
            let v = VALS[next(VALS.len() as u64) as usize];
            if v == 0 || !vals.contains(&v) {
                vals.push(v);
            }
        }
        let arg = vals.iter().map(|v| v.to_string()).collect::<Vec<_>>().join(",");
        let Ok(outp) = std::process::Command::new(&exe).arg("capseq").arg("--race").arg("1").arg("--vals").arg(&arg).output() else { continue };
        let line = String::from_utf8_lossy(&outp.stdout);
        let Ok(j) = serde_json::from_str::<serde_json::Value>(line.lines().last().unwrap_or("")) else { continue };
        let got: Vec<bool> = j["results"].as_array().map(|a| a.iter().map(|x| x.as_bool().unwrap_or(false)).collect()).unwrap_or_default();
        let later = j["later"].as_bool().unwrap_or(false);
        let measured = j["measured"].as_u64().unwrap_or(u64::MAX) as usize;
        part.evaluations += 1;
        let key = format!("caprace:{arg}");
        if !part.nontrivial_hashes.contains(&key) {
            part.nontrivial_hashes.push(key);
        }
        *part.labels.entry("default_capacity_races".into()).or_default() += 1;
        if part.samples.iter().filter(|s| s.get("set_default_mailbox_capacity_race").is_some()).count() < 2 {
            part.samples.push(serde_json::json!({"set_default_mailbox_capacity_race": {"values_one_thread_each": vals, "results": got, "later_call_ok": later, "measured_spawn_capacity": measured}}));
        }
        let winners: Vec<usize> = vals.iter().zip(got.iter()).filter(|(_, ok)| **ok).map(|(v, _)| *v).collect();
        let nonzero = vals.iter().filter(|v| **v != 0).count();
        let mut errs = vec![];
        if winners.iter().any(|v| *v == 0) {
            errs.push("a call with capacity 0 was accepted".to_string());
        }
        if winners.len() > 1 {
            errs.push(format!("{} concurrent calls were accepted (values {winners:?}); the default can be configured exactly once", winners.len()));
        }
        if nonzero > 0 && winners.is_empty() {
            errs.push("no call was accepted although the default had never been configured".to_string());
        }
        if winners.len() == 1 && measured != winners[0] {
            errs.push(format!("the accepted call configured {}, but spawn() uses a mailbox of capacity {measured}", winners[0]));
        }
        if nonzero == 0 && measured != 77 && !later {
            errs.push(format!("nothing was configured, later call rejected, spawn() uses {measured}"));
        }
        if nonzero > 0 && later {
            errs.push("a later set_default_mailbox_capacity call was accepted after the default had been configured".to_string());
        }
        if !errs.is_empty() {
            let detail = format!("threads calling set_default_mailbox_capacity({vals:?}) at the same instant -> {got:?}: {}", errs.join("; "));
            let path = write_replay(replay_out, "C09", "default-capacity-race", &detail, serde_json::json!({"caprace": {"vals": vals}}));
            println!("VIOLATION property=C09 replay={path}");
            println!("  kind=default-capacity-race detail={detail}");
            part.violations.push(serde_json::json!({"kind": "default-capacity-race", "detail": detail, "replay": path}));
            return 1;
        }
    }
    0
}

// ---------------------------------------------------------------------------------------------
// C13: the dead-letter counter under concurrency (needs the test-utils feature)
// ---------------------------------------------------------------------------------------------
/// K threads each perform M operations that fail to deliver (tell / ask / blocking variants against
/// an actor that has ended); the counter must advance by exactly K*M and exactly K*M records must
/// be emitted.
pub fn c13_counter_race(seed: u64, rounds: u32, replay_out: &str, part: &mut Part) -> i32 {
    #[cfg(not(feature = "test-utils"))]
    {
        let _ = (seed, rounds, replay_out, part);
        0
    }
    #[cfg(feature = "test-utils")]
    {
        use crate::actor::{MsgA, MsgB, SimActor, World};
        use crate::scenario::*;
        use crate::trace::{Clock, Recorder, K};
        let mut x = seed.wrapping_mul(0x9E3779B97F4A7C15) | 1;
        let mut next = |n: u64| {
            x ^= x << 13;
            x ^= x >> 7;
            x ^= x << 17;
            (x >> 11) % n
        };
        let rt = tokio::runtime::Builder::new_multi_thread().worker_threads(4).enable_time().build().expect("runtime");
        for _ in 0..rounds {
            let threads = 2 + next(15) as usize;
            let ops = 50 + next(400) as usize;
            let rec = Recorder::new(Clock::Real(std::time::Instant::now()), false);
            crate::trace::set_current(Some(rec.clone()));
            let world = std::sync::Arc::new(World { rec: rec.clone(), specs: vec![ActorSpec::default()], peers: std::sync::Mutex::new(vec![None]), us_per_ms: 1000 });
            let (r, jh) = {
                let _g = rt.enter();
                rsactor::spawn::<SimActor>((0, world.clone()))
            };
            rt.block_on(async {
                let _ = r.stop().await;
                let _ = jh.await;
            });
            let before = rsactor::dead_letter_count();
            let barrier = std::sync::Arc::new(std::sync::Barrier::new(threads));
            let mut hs = vec![];
            for t in 0..threads {
                let r2 = r.clone();
                let b = barrier.clone();
                let h = rt.handle().clone();
                hs.push(std::thread::spawn(move || {
                    b.wait();
                    let mut failed = 0usize;
                    for i in 0..ops {
                        let m = Msg { id: (t * 100_000 + i) as u32, ty: Ty::A, steps: vec![], out: Out::Ok, job: None };
                        let err = match (t + i) % 4 {
                            0 => r2.blocking_tell(MsgA(m), None).is_err(),
                            1 => r2.blocking_ask(MsgB(Msg { ty: Ty::B, ..m }), None).is_err(),
                            2 => h.block_on(r2.tell(MsgA(m))).is_err(),
                            _ => h.block_on(r2.ask_with_timeout(MsgA(m), std::time::Duration::from_millis(50))).is_err(),
                        };
                        if err {
                            failed += 1;
                        }
                    }
                    failed
                }));
            }
            let failed: usize = hs.into_iter().map(|h| h.join().unwrap_or(0)).sum();
            let after = rsactor::dead_letter_count();
            crate::trace::set_current(None);
            let records = rec.take().iter().filter(|e| matches!(e.k, K::DeadLetter { .. })).count();
            part.evaluations += 1;
            let key = format!("dlrace:{threads}x{ops}");
            if !part.nontrivial_hashes.contains(&key) {
                part.nontrivial_hashes.push(key);
            }
            *part.labels.entry("counter_race_rounds".into()).or_default() += 1;
            *part.labels.entry("counter_race_failed_ops".into()).or_default() += failed as u64;
            if part.samples.len() < 4 {
                part.samples.push(serde_json::json!({"dead_letter_counter_race": {"threads": threads, "ops_per_thread": ops, "failed_ops": failed, "counter_delta": after - before, "records": records}}));
            }
            if failed != threads * ops || (after - before) as usize != failed || records != failed {
                let detail = format!("{threads} threads x {ops} failing operations: {failed} returned an error, dead_letter_count() advanced by {}, {records} records were emitted", after - before);
                let path = write_replay(replay_out, "C13", "counter-race", &detail, serde_json::json!({"counter_race": {"threads": threads, "ops": ops}}));
                println!("VIOLATION property=C13 replay={path}");
                println!("  kind=counter-race detail={detail}");
                part.violations.push(serde_json::json!({"kind": "counter-race", "detail": detail, "replay": path}));
                return 1;
            }
        }
        0
    }
}

// ---------------------------------------------------------------------------------------------
// C06: kill() under real concurrency
// ---------------------------------------------------------------------------------------------
/// Round A: several OS threads / tasks call kill() on the same fresh actor at the same instant
/// (optionally repeatedly, optionally with a full mailbox and a busy handler); round B: one thread
/// hammers kill() while the actor is being stopped and joined elsewhere. Every kill() must return
/// Ok, the JoinHandle must resolve, and in round A (nothing but kills ends the actor) the result
/// must report killed=true.
pub fn c06_kill_race(seed: u64, rounds: u32, replay_out: &str, part: &mut Part) -> i32 {
    use crate::actor::{MsgA, SimActor, World};
    use crate::scenario::*;
    use crate::trace::{Clock, Recorder};
    use std::sync::atomic::{AtomicBool, AtomicUsize, Ordering};
    use std::sync::Arc;
    use std::time::Duration;
    crate::trace::set_current(None);
    let mut x = seed.wrapping_mul(0x9E3779B97F4A7C15) | 1;
    let mut next = |n: u64| {
        x ^= x << 13;
        x ^= x >> 7;
        x ^= x << 17;
        (x >> 11) % n
    };
    let rt = tokio::runtime::Builder::new_multi_thread().worker_threads(4).enable_time().build().expect("runtime");
    for _ in 0..rounds {
        let cap = [1usize, 2, 8][next(3) as usize];
        let variant_b = next(3) == 0;
        let threads = 2 + next(5) as usize;
        let repeats = 1 + next(3) as usize;
        let fill = next(2) == 0;
        let rec = Recorder::new(Clock::Real(std::time::Instant::now()), false);
        let world = Arc::new(World { rec, specs: vec![ActorSpec { cap: cap as u32, ..ActorSpec::default() }], peers: std::sync::Mutex::new(vec![None]), us_per_ms: 1000 });
        let (r, jh) = {
            let _g = rt.enter();
            rsactor::spawn_with_mailbox_capacity::<SimActor>((0, world.clone()), cap)
        };
        if fill {
            // a busy handler and a full mailbox behind it
            rt.block_on(async {
                let _ = r.tell(MsgA(Msg { id: 1, ty: Ty::A, steps: vec![Step::Spin(200)], out: Out::Ok, job: None })).await;
                for i in 0..cap {
                    let _ = r.tell_with_timeout(MsgA(Msg { id: 2 + i as u32, ty: Ty::A, steps: vec![], out: Out::Ok, job: None }), Duration::from_millis(20)).await;
                }
            });
        }
        let failed = Arc::new(AtomicUsize::new(0));
        let first_err = Arc::new(std::sync::Mutex::new(String::new()));
        let calls = Arc::new(AtomicUsize::new(0));
        let killed_expected;
        let joined;
        let result;
        if !variant_b {
            killed_expected = true;
            let go = Arc::new(AtomicBool::new(false));
            let ready = Arc::new(AtomicUsize::new(0));
            let mut hs = vec![];
            for _ in 0..threads {
                let (r2, go, failed, first_err, calls, ready) = (r.clone(), go.clone(), failed.clone(), first_err.clone(), calls.clone(), ready.clone());
                hs.push(std::thread::spawn(move || {
                    ready.fetch_add(1, Ordering::AcqRel);
                    while !go.load(Ordering::Acquire) {
                        std::hint::spin_loop();
                    }
                    for _ in 0..repeats {
                        calls.fetch_add(1, Ordering::Relaxed);
                        if let Err(e) = r2.kill() {
                            failed.fetch_add(1, Ordering::Relaxed);
                            let mut g = first_err.lock().unwrap();
                            if g.is_empty() {
                                *g = format!("{e}");
                            }
                        }
                    }
                }));
            }
            let t0 = std::time::Instant::now();
            while ready.load(Ordering::Acquire) < threads && t0.elapsed() < Duration::from_secs(5) {
                std::hint::spin_loop();
            }
            go.store(true, Ordering::Release);
            for h in hs {
                let _ = h.join();
            }
            drop(r);
            let out = rt.block_on(async { tokio::time::timeout(Duration::from_secs(10), jh).await });
            joined = out.is_ok();
            result = out.ok().and_then(|x| x.ok());
        } else {
            killed_expected = false; // either is possible: stop and kill race
            let done = Arc::new(AtomicBool::new(false));
            let (r2, done2, failed2, first_err2, calls2) = (r.clone(), done.clone(), failed.clone(), first_err.clone(), calls.clone());
            let h = std::thread::spawn(move || {
                let mut after = 0;
                loop {
                    calls2.fetch_add(1, Ordering::Relaxed);
                    if let Err(e) = r2.kill() {
                        failed2.fetch_add(1, Ordering::Relaxed);
                        let mut g = first_err2.lock().unwrap();
                        if g.is_empty() {
                            *g = format!("{e}");
                        }
                        break;
                    }
                    if done2.load(Ordering::Acquire) {
                        after += 1;
                        if after > 3 {
                            break;
                        }
                    }
                }
            });
            let delay = next(200) as u32;
            for _ in 0..delay * 20 {
                std::hint::spin_loop();
            }
            let out = rt.block_on(async {
                let _ = r.stop().await;
                tokio::time::timeout(Duration::from_secs(10), jh).await
            });
            done.store(true, Ordering::Release);
            let _ = h.join();
            joined = out.is_ok();
            result = out.ok().and_then(|x| x.ok());
        }
        let n_failed = failed.load(Ordering::Relaxed);
        part.evaluations += 1;
        let key = format!("killrace:{}:cap{cap}:t{threads}:r{repeats}:fill{fill}", if variant_b { "exit" } else { "simultaneous" });
        if !part.nontrivial_hashes.contains(&key) {
            part.nontrivial_hashes.push(key);
        }
        *part.labels.entry("kill_race_rounds".into()).or_default() += 1;
        *part.labels.entry("kill_race_kill_calls".into()).or_default() += calls.load(Ordering::Relaxed) as u64;
        if part.samples.len() < 3 {
            part.samples.push(serde_json::json!({"kill_race": {"variant": if variant_b { "kill racing stop+exit" } else { "simultaneous kills" }, "capacity": cap, "threads": threads, "repeats": repeats, "full_mailbox_busy_handler": fill, "kill_calls": calls.load(Ordering::Relaxed), "failed": n_failed}}));
        }
        let mut bad: Option<(&str, String)> = None;
        if n_failed > 0 {
            bad = Some(("kill-failed", format!("{n_failed} kill() call(s) returned Err ({}) - {} on an actor with capacity {cap}{}", first_err.lock().unwrap(), if variant_b { "kill() hammered from one thread while the actor was stopped and joined".to_string() } else { format!("{threads} threads x {repeats} simultaneous kill() calls") }, if fill { ", full mailbox and busy handler" } else { "" })));
        } else if !joined {
            bad = Some(("killed-actor-did-not-end", format!("JoinHandle unresolved 10 s after {threads} threads killed the actor")));
        } else if killed_expected {
            match &result {
                Some(res) if !res.was_killed() => bad = Some(("not-reported-killed", format!("only kill() ended the actor (capacity {cap}, {threads} threads) but the result reports killed=false"))),
                _ => {}
            }
        }
        if let Some((kind, detail)) = bad {
            let path = write_replay(replay_out, "C06", kind, &detail, serde_json::json!({"kill_race": {"seed": seed}}));
            println!("VIOLATION property=C06 replay={path}");
            println!("  kind={kind} detail={detail}");
            part.violations.push(serde_json::json!({"kind": kind, "detail": detail, "replay": path}));
            return 1;
        }
    }
    0
}
