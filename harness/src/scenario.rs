//! Scenario data model: plain data, serialisable; a scenario file *is* the replay file.
//!
//! All delays are virtual milliseconds in the simulator (even values by construction of the
//! generator, so that the odd-ms sampler of the C15 profile never shares an instant with anything
//! else). In the real-thread engine the same numbers are interpreted as real milliseconds / 4.

use serde::{Deserialize, Serialize};

pub type Ms = u32;

/// sentinel timeout value: `Duration::MAX` ("wait forever" spelled as a timeout)
pub const MS_MAX: Ms = u32::MAX;

#[derive(Serialize, Deserialize, Clone, Debug, PartialEq, Default)]
pub struct Scenario {
    pub actors: Vec<ActorSpec>,
    pub clients: Vec<ClientSpec>,
    /// How client operations reach the actor.
    #[serde(default)]
    pub routing: Routing,
    /// Run the odd-millisecond sampler (wait-for graph snapshots; needs the verification hook).
    #[serde(default)]
    pub sampler: bool,
    /// Spawn one more (default-scripted) actor after the main phase and probe it (C12).
    #[serde(default)]
    pub late_spawn: bool,
    /// Free-form note (profile name etc.); not interpreted.
    #[serde(default)]
    pub note: String,
}

#[derive(Serialize, Deserialize, Clone, Copy, Debug, PartialEq, Default)]
pub enum Routing {
    /// Handles are whatever the scenario's ops make them (mix of direct and erased).
    #[default]
    Mixed,
    /// Every client handle is a plain ActorRef / ActorWeak, `Convert` ops are no-ops.
    Direct,
    /// Every client handle is a bundle of type-erased trait objects; each op picks one of the
    /// equivalent erased paths as a deterministic function of (seed, client, op index).
    Erased(u32),
}

#[derive(Serialize, Deserialize, Clone, Debug, PartialEq)]
pub struct ActorSpec {
    /// Mailbox capacity for spawn_with_mailbox_capacity; 0 = use rsactor::spawn (default capacity).
    pub cap: u32,
    pub start: Hook,
    /// Scripts for successive on_run invocations (an invocation = a future of on_run that was
    /// polled at least once). `Out::Ok` = Ok(true), `Out::False` = Ok(false).
    pub runs: Vec<Hook>,
    /// What on_run does once `runs` is exhausted.
    pub run_tail: Tail,
    pub stop: Hook,
}

impl Default for ActorSpec {
    fn default() -> Self {
        ActorSpec {
            cap: 8,
            start: Hook::default(),
            runs: vec![],
            run_tail: Tail::Done,
            stop: Hook::default(),
        }
    }
}

#[derive(Serialize, Deserialize, Clone, Copy, Debug, PartialEq)]
pub enum Tail {
    /// return Ok(false) immediately
    Done,
    /// never complete (std::future::pending) — stays cancellable by the select loop
    Pend,
}

#[derive(Serialize, Deserialize, Clone, Debug, PartialEq, Default)]
pub struct Hook {
    pub steps: Vec<Step>,
    pub out: Out,
}

#[derive(Serialize, Deserialize, Clone, Copy, Debug, PartialEq, Default)]
pub enum Out {
    #[default]
    Ok,
    /// on_run only: Ok(false)
    False,
    Err,
    Panic,
}

#[derive(Serialize, Deserialize, Clone, Debug, PartialEq)]
pub enum Step {
    Sleep(Ms),
    Yield(u8),
    /// real `std::thread::sleep` in microseconds (metrics profile only)
    Spin(u32),
    /// send to a peer actor (resolved through the world's weak table + upgrade);
    /// `erased`: route the call through a type-erased handler built from the reference
    Send {
        to: usize,
        how: How,
        msg: Box<Msg>,
        #[serde(default)]
        erased: bool,
    },
    /// several sends issued concurrently from this hook (`join_all`): e.g. two asks in flight at
    /// once, or an ask next to one that panics
    Par(Vec<Step>),
    /// `kill()` on own reference (via weak upgrade in on_run/on_stop)
    KillSelf,
    /// kill a peer
    KillPeer(usize),
    /// store a strong clone of the own ActorRef in the actor state
    Keep,
    /// drop all stored own references
    Unkeep,
}

/// The API call used for a message operation.
#[derive(Serialize, Deserialize, Clone, Copy, Debug, PartialEq)]
pub enum How {
    Tell,
    TellT(Ms),
    Ask,
    AskT(Ms),
    /// ask_join (message must be of type Job)
    AskJoin,
    /// plain tell / ask wrapped in a *caller-side* `tokio::time::timeout`: the future is dropped
    /// (the call abandoned) if it has not returned after the given time
    TellC(Ms),
    AskC(Ms),
    /// the tell / ask future is created, then the caller yields `n` times (other tasks run) before it
    /// polls it for the first time - or, if `drop` is set, drops it without ever polling it
    TellL { yields: u8, drop: bool },
    AskL { yields: u8, drop: bool },
    /// ask_with_timeout(t) issued by a *busy caller*: the future is polled once, then not polled
    /// at all for `late` ms (its wake-ups are ignored), then awaited
    AskTL(Ms, Ms),
    // real-thread engine only:
    BTell(Option<Ms>),
    BAsk(Option<Ms>),
    /// deprecated tell_blocking / ask_blocking with an (ignored) timeout argument
    DepTell(Option<Ms>),
    DepAsk(Option<Ms>),
}

impl How {
    pub fn is_tell(&self) -> bool {
        matches!(self, How::Tell | How::TellT(_) | How::TellC(_) | How::TellL { .. } | How::BTell(_) | How::DepTell(_))
    }
    pub fn is_ask(&self) -> bool {
        !self.is_tell()
    }
    pub fn timeout(&self) -> Option<Ms> {
        match self {
            How::TellT(t) | How::AskT(t) | How::AskTL(t, _) => Some(*t),
            How::BTell(t) | How::BAsk(t) => *t,
            _ => None,
        }
    }
    /// caller-side cancellation deadline (not a library timeout)
    pub fn cancel_after(&self) -> Option<Ms> {
        match self {
            How::TellC(t) | How::AskC(t) => Some(*t),
            _ => None,
        }
    }
    /// how long a busy caller leaves the call un-polled after its first poll
    pub fn late(&self) -> Option<Ms> {
        match self {
            How::AskTL(_, l) => Some(*l),
            _ => None,
        }
    }
    pub fn is_blocking(&self) -> bool {
        matches!(self, How::BTell(_) | How::BAsk(_) | How::DepTell(_) | How::DepAsk(_))
    }
}

#[derive(Serialize, Deserialize, Clone, Copy, Debug, PartialEq, Eq, Hash)]
pub enum Ty {
    A,
    B,
    Job,
}

#[derive(Serialize, Deserialize, Clone, Debug, PartialEq)]
pub struct Msg {
    /// unique within the scenario
    pub id: u32,
    pub ty: Ty,
    /// what the handler does before producing its outcome
    pub steps: Vec<Step>,
    /// `Out::Ok` = reply, `Out::Err` = reply carrying an error flag (a handler "error" is just a
    /// value), `Out::Panic` = panic
    pub out: Out,
    /// Ty::Job only
    #[serde(default)]
    pub job: Option<Job>,
}

#[derive(Serialize, Deserialize, Clone, Copy, Debug, PartialEq)]
pub struct Job {
    pub dur: Ms,
    pub out: JobOut,
}

#[derive(Serialize, Deserialize, Clone, Copy, Debug, PartialEq)]
pub enum JobOut {
    Ok,
    Panic,
    /// the handler aborts the task before returning its JoinHandle
    Abort,
}

#[derive(Serialize, Deserialize, Clone, Debug, PartialEq, Default)]
pub struct ClientSpec {
    /// actors for which this client starts with one strong handle (slot i = i-th entry)
    pub init: Vec<usize>,
    pub ops: Vec<ClientOp>,
    /// real-thread engine: where this client runs
    #[serde(default)]
    pub mode: ClientMode,
}

#[derive(Serialize, Deserialize, Clone, Copy, Debug, PartialEq, Default)]
pub enum ClientMode {
    /// a tokio task (async ops; blocking ops only with a timeout)
    #[default]
    Task,
    /// a plain OS thread
    Thread,
    /// tokio::task::spawn_blocking
    Pool,
}

#[derive(Serialize, Deserialize, Clone, Debug, PartialEq)]
pub struct ClientOp {
    pub delay: Ms,
    pub yields: u8,
    pub op: Op,
}

#[derive(Serialize, Deserialize, Clone, Debug, PartialEq)]
pub enum Op {
    /// message operation through strong slot `h`
    Send { h: usize, how: How, msg: Msg },
    Stop { h: usize },
    /// stop() wrapped in a caller-side `tokio::time::timeout`: the call is abandoned (its future
    /// dropped) if it has not returned after `t`
    StopT { h: usize, t: Ms },
    Kill { h: usize },
    /// clone strong slot h into a new strong slot
    Clone { h: usize },
    /// drop strong slot h
    Drop { h: usize },
    /// downgrade strong slot h into a new weak slot
    Downgrade { h: usize },
    /// upgrade weak slot w into a new strong slot (if Some)
    Upgrade { w: usize },
    DropWeak { w: usize },
    /// clone weak slot
    CloneWeak { w: usize },
    /// re-wrap strong slot h: direct <-> erased bundle (built through the given From form)
    Convert { h: usize, erased: bool, by_ref: bool },
    /// observe identity / is_alive of strong slot
    Probe { h: usize },
    /// observe identity / is_alive / upgrade().is_some() of weak slot
    ProbeWeak { w: usize },
    /// observe metrics through strong slot (metrics builds; otherwise a no-op)
    Metrics { h: usize },
    /// observe metrics through an upgraded weak slot
    MetricsWeak { w: usize },
}

impl Scenario {
    /// a scenario for the real-thread engine (OS-thread / pool clients or blocking calls): it cannot
    /// be run by the single-threaded simulator
    pub fn needs_rt(&self) -> bool {
        self.clients.iter().any(|c| c.mode != ClientMode::Task || c.ops.iter().any(|o| matches!(&o.op, Op::Send { how, .. } if how.is_blocking())))
    }
    /// message ids must be unique (every oracle identifies messages by id)
    pub fn well_formed(&self) -> bool {
        fn walk(steps: &[Step], seen: &mut std::collections::HashSet<u32>) -> bool {
            for s in steps {
                if let Step::Send { msg, .. } = s {
                    if !seen.insert(msg.id) || !walk(&msg.steps, seen) {
                        return false;
                    }
                }
                if let Step::Par(inner) = s {
                    if !walk(inner, seen) {
                        return false;
                    }
                }
            }
            true
        }
        let mut seen = std::collections::HashSet::new();
        for a in &self.actors {
            if !walk(&a.start.steps, &mut seen) || !walk(&a.stop.steps, &mut seen) {
                return false;
            }
            for r in &a.runs {
                if !walk(&r.steps, &mut seen) {
                    return false;
                }
            }
        }
        for c in &self.clients {
            for o in &c.ops {
                if let Op::Send { msg, .. } = &o.op {
                    if !seen.insert(msg.id) || !walk(&msg.steps, &mut seen) {
                        return false;
                    }
                }
            }
        }
        true
    }
    pub fn to_json(&self) -> String {
        serde_json::to_string(self).unwrap()
    }
    pub fn hash64(&self) -> u64 {
        // FNV-1a over the canonical JSON
        let s = self.to_json();
        let mut h: u64 = 0xcbf29ce484222325;
        for b in s.as_bytes() {
            h ^= *b as u64;
            h = h.wrapping_mul(0x100000001b3);
        }
        h
    }
    /// upper bound of the virtual time any scripted activity can need (ms)
    pub fn time_budget(&self) -> u64 {
        fn steps(s: &[Step]) -> u64 {
            s.iter()
                .map(|s| match s {
                    Step::Sleep(ms) => *ms as u64,
                    Step::Par(inner) => steps(inner),
                    Step::Send { how, msg, .. } => {
                        how.timeout().or(how.cancel_after()).map(|t| (t as u64).min(200)).unwrap_or(0) + how.late().unwrap_or(0) as u64 + msg_cost(msg)
                    }
                    _ => 0,
                })
                .sum()
        }
        fn msg_cost(m: &Msg) -> u64 {
            steps(&m.steps) + m.job.map(|j| j.dur as u64).unwrap_or(0)
        }
        let mut total = 0u64;
        for a in &self.actors {
            total += steps(&a.start.steps) + steps(&a.stop.steps);
            for r in &a.runs {
                total += steps(&r.steps);
            }
        }
        for c in &self.clients {
            for o in &c.ops {
                total += o.delay as u64;
                if let Op::Send { how, msg, .. } = &o.op {
                    total += how.timeout().or(how.cancel_after()).map(|t| (t as u64).min(200)).unwrap_or(0) + how.late().unwrap_or(0) as u64;
                    total += msg_cost(msg);
                }
            }
        }
        total
    }
}
