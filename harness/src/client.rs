//! Client-side handles (direct or bundles of type-erased trait objects) and the interpreter of
//! client scripts.

use crate::actor::*;
use crate::scenario::*;
use crate::trace::*;
use rsactor::{
    ActorControl, ActorRef, ActorWeak, AskHandler, TellHandler, WeakActorControl, WeakAskHandler,
    WeakTellHandler,
};
use std::sync::Arc;
use tokio::task::JoinHandle;

type Jh = JoinHandle<u64>;

/// All the erased views of one logical strong handle. Created and dropped as a unit.
pub struct Bundle {
    pub tell_a: Box<dyn TellHandler<MsgA>>,
    pub tell_b: Box<dyn TellHandler<MsgB>>,
    pub tell_j: Box<dyn TellHandler<JobMsg>>,
    pub ask_a: Box<dyn AskHandler<MsgA, Rep>>,
    pub ask_b: Box<dyn AskHandler<MsgB, Rep>>,
    pub ask_j: Box<dyn AskHandler<JobMsg, Jh>>,
    pub ctl: Box<dyn ActorControl>,
}

pub struct WeakBundle {
    pub tell_a: Box<dyn WeakTellHandler<MsgA>>,
    pub tell_b: Box<dyn WeakTellHandler<MsgB>>,
    pub tell_j: Box<dyn WeakTellHandler<JobMsg>>,
    pub ask_a: Box<dyn WeakAskHandler<MsgA, Rep>>,
    pub ask_b: Box<dyn WeakAskHandler<MsgB, Rep>>,
    pub ask_j: Box<dyn WeakAskHandler<JobMsg, Jh>>,
    pub ctl: Box<dyn WeakActorControl>,
}

pub enum Strong {
    Direct(ActorRef<SimActor>),
    Erased(Bundle),
}

pub enum Weak {
    Direct(ActorWeak<SimActor>),
    Erased(WeakBundle),
}

impl Bundle {
    pub fn from_ref(r: &ActorRef<SimActor>, by_ref: bool) -> Bundle {
        if by_ref {
            Bundle {
                tell_a: r.into(),
                tell_b: r.into(),
                tell_j: r.into(),
                ask_a: r.into(),
                ask_b: r.into(),
                ask_j: r.into(),
                ctl: r.into(),
            }
        } else {
            Bundle {
                tell_a: r.clone().into(),
                tell_b: r.clone().into(),
                tell_j: r.clone().into(),
                ask_a: r.clone().into(),
                ask_b: r.clone().into(),
                ask_j: r.clone().into(),
                ctl: r.clone().into(),
            }
        }
    }
    pub fn clone_via(&self, via: u8) -> Bundle {
        if via & 1 == 0 {
            Bundle {
                tell_a: self.tell_a.clone_boxed(),
                tell_b: self.tell_b.clone_boxed(),
                tell_j: self.tell_j.clone_boxed(),
                ask_a: self.ask_a.clone_boxed(),
                ask_b: self.ask_b.clone_boxed(),
                ask_j: self.ask_j.clone_boxed(),
                ctl: self.ctl.clone_boxed(),
            }
        } else {
            Bundle {
                tell_a: self.tell_a.clone(),
                tell_b: self.tell_b.clone(),
                tell_j: self.tell_j.clone(),
                ask_a: self.ask_a.clone(),
                ask_b: self.ask_b.clone(),
                ask_j: self.ask_j.clone(),
                ctl: self.ctl.clone(),
            }
        }
    }
    pub fn downgrade(&self) -> WeakBundle {
        WeakBundle {
            tell_a: self.tell_a.downgrade(),
            tell_b: self.tell_b.downgrade(),
            tell_j: self.tell_j.downgrade(),
            ask_a: self.ask_a.downgrade(),
            ask_b: self.ask_b.downgrade(),
            ask_j: self.ask_j.downgrade(),
            ctl: self.ctl.downgrade(),
        }
    }
    /// one of the equivalent control views
    fn control(&self, via: u8) -> &dyn ActorControl {
        match via % 7 {
            0 => &*self.ctl,
            1 => self.tell_a.as_control(),
            2 => self.tell_b.as_control(),
            3 => self.tell_j.as_control(),
            4 => self.ask_a.as_control(),
            5 => self.ask_b.as_control(),
            _ => self.ask_j.as_control(),
        }
    }
    /// all views must agree on identity
    pub fn identities(&self) -> Vec<rsactor::Identity> {
        (0..7).map(|v| self.control(v).identity()).collect()
    }
}

impl WeakBundle {
    pub fn from_weak(w: &ActorWeak<SimActor>, by_ref: bool) -> WeakBundle {
        if by_ref {
            WeakBundle {
                tell_a: w.into(),
                tell_b: w.into(),
                tell_j: w.into(),
                ask_a: w.into(),
                ask_b: w.into(),
                ask_j: w.into(),
                ctl: w.into(),
            }
        } else {
            WeakBundle {
                tell_a: w.clone().into(),
                tell_b: w.clone().into(),
                tell_j: w.clone().into(),
                ask_a: w.clone().into(),
                ask_b: w.clone().into(),
                ask_j: w.clone().into(),
                ctl: w.clone().into(),
            }
        }
    }
    pub fn clone_via(&self, via: u8) -> WeakBundle {
        if via & 1 == 0 {
            WeakBundle {
                tell_a: self.tell_a.clone_boxed(),
                tell_b: self.tell_b.clone_boxed(),
                tell_j: self.tell_j.clone_boxed(),
                ask_a: self.ask_a.clone_boxed(),
                ask_b: self.ask_b.clone_boxed(),
                ask_j: self.ask_j.clone_boxed(),
                ctl: self.ctl.clone_boxed(),
            }
        } else {
            WeakBundle {
                tell_a: self.tell_a.clone(),
                tell_b: self.tell_b.clone(),
                tell_j: self.tell_j.clone(),
                ask_a: self.ask_a.clone(),
                ask_b: self.ask_b.clone(),
                ask_j: self.ask_j.clone(),
                ctl: self.ctl.clone(),
            }
        }
    }
    pub fn upgrade(&self) -> Option<Bundle> {
        Some(Bundle {
            tell_a: self.tell_a.upgrade()?,
            tell_b: self.tell_b.upgrade()?,
            tell_j: self.tell_j.upgrade()?,
            ask_a: self.ask_a.upgrade()?,
            ask_b: self.ask_b.upgrade()?,
            ask_j: self.ask_j.upgrade()?,
            ctl: self.ctl.upgrade()?,
        })
    }
    fn control(&self, via: u8) -> &dyn WeakActorControl {
        match via % 7 {
            0 => &*self.ctl,
            1 => self.tell_a.as_weak_control(),
            2 => self.tell_b.as_weak_control(),
            3 => self.tell_j.as_weak_control(),
            4 => self.ask_a.as_weak_control(),
            5 => self.ask_b.as_weak_control(),
            _ => self.ask_j.as_weak_control(),
        }
    }
    pub fn identities(&self) -> Vec<rsactor::Identity> {
        (0..7).map(|v| self.control(v).identity()).collect()
    }
}

fn unit(r: rsactor::Result<()>, id: rsactor::Identity) -> Res {
    match r {
        Ok(()) => Res::Ok,
        Err(e) => map_err(&e, id),
    }
}
fn rep(r: rsactor::Result<Rep>, id: rsactor::Identity) -> Res {
    match r {
        Ok(rep) => Res::Rep { id: rep.id, nonce: rep.nonce, err: rep.err },
        Err(e) => map_err(&e, id),
    }
}
fn jh(r: rsactor::Result<Jh>, id: rsactor::Identity) -> Res {
    match r {
        Ok(_) => Res::Ok,
        Err(e) => map_err(&e, id),
    }
}

/// ask_join spelled through an erased AskHandler: ask, then await the handle, mapping the
/// JoinError exactly as the documentation of ask_join describes.
async fn erased_ask_join(h: &dyn AskHandler<JobMsg, Jh>, msg: Msg, id: rsactor::Identity) -> Res {
    match h.ask(JobMsg(msg)).await {
        Err(e) => map_err(&e, id),
        Ok(handle) => match handle.await {
            Ok(v) => Res::Job(v),
            Err(e) => {
                if e.is_panic() {
                    Res::ErrJoinPanic
                } else {
                    Res::ErrJoinCancelled
                }
            }
        },
    }
}

impl Strong {
    pub fn identity(&self, via: u8) -> rsactor::Identity {
        match self {
            Strong::Direct(r) => r.identity(),
            Strong::Erased(b) => b.control(via).identity(),
        }
    }
    pub fn is_alive(&self, via: u8) -> bool {
        match self {
            Strong::Direct(r) => r.is_alive(),
            Strong::Erased(b) => b.control(via).is_alive(),
        }
    }
    pub fn kill(&self, via: u8) -> Res {
        let id = self.identity(0);
        match self {
            Strong::Direct(r) => unit(r.kill(), id),
            Strong::Erased(b) => match (via / 7) % 3 {
                0 => unit(b.control(via).kill(), id),
                1 => unit(b.control(via).clone_boxed().kill(), id),
                _ => match b.control(via).downgrade().upgrade() {
                    Some(c) => unit(c.kill(), id),
                    None => Res::ErrOther("erased downgrade+upgrade failed while a strong handle is held".into()),
                },
            },
        }
    }
    pub async fn stop(&self, via: u8) -> Res {
        let id = self.identity(0);
        match self {
            Strong::Direct(r) => unit(r.stop().await, id),
            Strong::Erased(b) => match (via / 7) % 3 {
                0 => unit(b.control(via).stop().await, id),
                1 => {
                    let c = b.control(via).clone_boxed();
                    unit(c.stop().await, id)
                }
                _ => match b.control(via).downgrade().upgrade() {
                    Some(c) => unit(c.stop().await, id),
                    None => Res::ErrOther("erased downgrade+upgrade failed while a strong handle is held".into()),
                },
            },
        }
    }
    pub fn clone_via(&self, via: u8) -> Strong {
        match self {
            Strong::Direct(r) => Strong::Direct(r.clone()),
            Strong::Erased(b) => Strong::Erased(b.clone_via(via)),
        }
    }
    pub fn downgrade(&self, via: u8) -> Weak {
        match self {
            Strong::Direct(r) => Weak::Direct(ActorRef::downgrade(r)),
            Strong::Erased(b) => {
                let _ = via;
                Weak::Erased(b.downgrade())
            }
        }
    }
    pub async fn send(&self, how: How, msg: Msg, via: u8, world: &World) -> Res {
        match self {
            Strong::Direct(r) => send_direct(r, how, msg, world).await,
            Strong::Erased(b) => {
                let id = b.ctl.identity();
                // second-level variation: use the box itself or a temporary clone of it
                let tmp = (via / 7) % 2 == 1;
                macro_rules! th {
                    ($f:ident, $tmpname:ident) => {{
                        if tmp {
                            $tmpname = Some(b.$f.clone_boxed());
                            &**$tmpname.as_ref().unwrap()
                        } else {
                            &*b.$f
                        }
                    }};
                }
                let mut t1: Option<Box<dyn TellHandler<MsgA>>> = None;
                let mut t2: Option<Box<dyn TellHandler<MsgB>>> = None;
                let mut t3: Option<Box<dyn TellHandler<JobMsg>>> = None;
                let mut t4: Option<Box<dyn AskHandler<MsgA, Rep>>> = None;
                let mut t5: Option<Box<dyn AskHandler<MsgB, Rep>>> = None;
                let mut t6: Option<Box<dyn AskHandler<JobMsg, Jh>>> = None;
                let _ = (&mut t1, &mut t2, &mut t3, &mut t4, &mut t5, &mut t6);
                match (how, msg.ty) {
                    (How::Tell, Ty::A) => unit(th!(tell_a, t1).tell(MsgA(msg)).await, id),
                    (How::Tell, Ty::B) => unit(th!(tell_b, t2).tell(MsgB(msg)).await, id),
                    (How::Tell, Ty::Job) => unit(th!(tell_j, t3).tell(JobMsg(msg)).await, id),
                    (How::TellT(t), Ty::A) => {
                        unit(b.tell_a.tell_with_timeout(MsgA(msg), world.dur(t)).await, id)
                    }
                    (How::TellT(t), Ty::B) => {
                        unit(b.tell_b.tell_with_timeout(MsgB(msg), world.dur(t)).await, id)
                    }
                    (How::TellT(t), Ty::Job) => {
                        unit(b.tell_j.tell_with_timeout(JobMsg(msg), world.dur(t)).await, id)
                    }
                    (How::Ask, Ty::A) => rep(th!(ask_a, t4).ask(MsgA(msg)).await, id),
                    (How::Ask, Ty::B) => rep(th!(ask_b, t5).ask(MsgB(msg)).await, id),
                    (How::Ask, Ty::Job) => jh(th!(ask_j, t6).ask(JobMsg(msg)).await, id),
                    (How::AskT(t), Ty::A) => {
                        rep(b.ask_a.ask_with_timeout(MsgA(msg), world.dur(t)).await, id)
                    }
                    (How::AskT(t), Ty::B) => {
                        rep(b.ask_b.ask_with_timeout(MsgB(msg), world.dur(t)).await, id)
                    }
                    (How::AskT(t), Ty::Job) => {
                        jh(b.ask_j.ask_with_timeout(JobMsg(msg), world.dur(t)).await, id)
                    }
                    (How::AskJoin, Ty::Job) => erased_ask_join(&*b.ask_j, msg, id).await,
                    (How::AskJoin, Ty::A) => rep(b.ask_a.ask(MsgA(msg)).await, id),
                    (How::AskJoin, Ty::B) => rep(b.ask_b.ask(MsgB(msg)).await, id),
                    (How::TellL { yields, drop }, Ty::A) => lazy_call!(b.tell_a.tell(MsgA(msg)), yields, drop, |x| unit(x, id)),
                    (How::TellL { yields, drop }, Ty::B) => lazy_call!(b.tell_b.tell(MsgB(msg)), yields, drop, |x| unit(x, id)),
                    (How::TellL { yields, drop }, Ty::Job) => lazy_call!(b.tell_j.tell(JobMsg(msg)), yields, drop, |x| unit(x, id)),
                    (How::AskL { yields, drop }, Ty::A) => lazy_call!(b.ask_a.ask(MsgA(msg)), yields, drop, |x| rep(x, id)),
                    (How::AskL { yields, drop }, Ty::B) => lazy_call!(b.ask_b.ask(MsgB(msg)), yields, drop, |x| rep(x, id)),
                    (How::AskL { yields, drop }, Ty::Job) => lazy_call!(b.ask_j.ask(JobMsg(msg)), yields, drop, |x| jh(x, id)),
                    (How::AskTL(t, late), ty) => {
                        let mut fut: std::pin::Pin<Box<dyn std::future::Future<Output = Res> + Send + '_>> = match ty {
                            Ty::A => Box::pin(async move { rep(b.ask_a.ask_with_timeout(MsgA(msg), world.dur(t)).await, id) }),
                            Ty::B => Box::pin(async move { rep(b.ask_b.ask_with_timeout(MsgB(msg), world.dur(t)).await, id) }),
                            Ty::Job => Box::pin(async move { jh(b.ask_j.ask_with_timeout(JobMsg(msg), world.dur(t)).await, id) }),
                        };
                        match futures::poll!(fut.as_mut()) {
                            std::task::Poll::Ready(res) => res,
                            std::task::Poll::Pending => {
                                if late > 0 {
                                    tokio::time::sleep(world.dur(late)).await;
                                }
                                fut.await
                            }
                        }
                    }
                    (How::TellC(t), Ty::A) => match tokio::time::timeout(world.dur(t), b.tell_a.tell(MsgA(msg))).await {
                        Ok(r) => unit(r, id),
                        Err(_) => Res::Abandoned,
                    },
                    (How::TellC(t), Ty::B) => match tokio::time::timeout(world.dur(t), b.tell_b.tell(MsgB(msg))).await {
                        Ok(r) => unit(r, id),
                        Err(_) => Res::Abandoned,
                    },
                    (How::TellC(t), Ty::Job) => match tokio::time::timeout(world.dur(t), b.tell_j.tell(JobMsg(msg))).await {
                        Ok(r) => unit(r, id),
                        Err(_) => Res::Abandoned,
                    },
                    (How::AskC(t), Ty::A) => match tokio::time::timeout(world.dur(t), b.ask_a.ask(MsgA(msg))).await {
                        Ok(r) => rep(r, id),
                        Err(_) => Res::Abandoned,
                    },
                    (How::AskC(t), Ty::B) => match tokio::time::timeout(world.dur(t), b.ask_b.ask(MsgB(msg))).await {
                        Ok(r) => rep(r, id),
                        Err(_) => Res::Abandoned,
                    },
                    (How::AskC(t), Ty::Job) => match tokio::time::timeout(world.dur(t), b.ask_j.ask(JobMsg(msg))).await {
                        Ok(r) => jh(r, id),
                        Err(_) => Res::Abandoned,
                    },
                    (h, _) => self.send_blocking(h, msg, world),
                }
            }
        }
    }
    #[allow(deprecated)]
    pub fn send_blocking(&self, how: How, msg: Msg, world: &World) -> Res {
        match self {
            Strong::Direct(r) => crate::actor::send_blocking(r, how, msg, world),
            Strong::Erased(b) => {
                let id = b.ctl.identity();
                let d = |t: Option<Ms>| t.map(|t| world.dur(t));
                match (how, msg.ty) {
                    (How::BTell(t), Ty::A) => unit(b.tell_a.blocking_tell(MsgA(msg), d(t)), id),
                    (How::BTell(t), Ty::B) => unit(b.tell_b.blocking_tell(MsgB(msg), d(t)), id),
                    (How::BTell(t), Ty::Job) => unit(b.tell_j.blocking_tell(JobMsg(msg), d(t)), id),
                    (How::BAsk(t), Ty::A) => rep(b.ask_a.blocking_ask(MsgA(msg), d(t)), id),
                    (How::BAsk(t), Ty::B) => rep(b.ask_b.blocking_ask(MsgB(msg), d(t)), id),
                    (How::BAsk(t), Ty::Job) => jh(b.ask_j.blocking_ask(JobMsg(msg), d(t)), id),
                    // the deprecated aliases exist on ActorRef only
                    _ => Res::Skipped,
                }
            }
        }
    }
}

impl Weak {
    pub fn identity(&self, via: u8) -> rsactor::Identity {
        match self {
            Weak::Direct(w) => w.identity(),
            Weak::Erased(b) => b.control(via).identity(),
        }
    }
    pub fn is_alive(&self, via: u8) -> bool {
        match self {
            Weak::Direct(w) => w.is_alive(),
            Weak::Erased(b) => b.control(via).is_alive(),
        }
    }
    pub fn upgrade(&self, _via: u8) -> Option<Strong> {
        match self {
            Weak::Direct(w) => w.upgrade().map(Strong::Direct),
            Weak::Erased(b) => b.upgrade().map(Strong::Erased),
        }
    }
    pub fn clone_via(&self, via: u8) -> Weak {
        match self {
            Weak::Direct(w) => Weak::Direct(w.clone()),
            Weak::Erased(b) => Weak::Erased(b.clone_via(via)),
        }
    }
}

pub type SSlot = Option<Tracked<Strong>>;
pub type WSlot = Option<(usize, Weak)>;

#[derive(Default)]
pub struct Holdings {
    pub strong: Vec<SSlot>,
    pub weak: Vec<WSlot>,
}

pub fn mix(seed: u32, c: usize, i: usize) -> u8 {
    let mut x = (seed as u64) ^ ((c as u64) << 20) ^ ((i as u64) << 4) ^ 0x9E3779B97F4A7C15;
    x ^= x >> 33;
    x = x.wrapping_mul(0xff51afd7ed558ccd);
    x ^= x >> 33;
    x = x.wrapping_mul(0xc4ceb9fe1a85ec53);
    x ^= x >> 33;
    (x & 0xff) as u8
}

pub struct ClientCtx {
    pub c: usize,
    pub src: Src,
    pub world: Arc<World>,
    pub routing: Routing,
}

impl ClientCtx {
    fn begin(&self, a: usize, kind: OpKind, slot: usize, via: u8) -> u64 {
        let op = self.world.rec.new_op();
        self.world.rec.rec(K::OpBegin { op, src: self.src, hook: None, a, kind, slot, via });
        op
    }
    fn end(&self, op: u64, res: Res) {
        self.world.rec.rec(K::OpEnd { op, res });
    }
    fn skipped(&self, kind: OpKind, slot: usize) {
        let op = self.begin(usize::MAX, kind, slot, 0);
        self.end(op, Res::Skipped);
    }

    pub fn observe_strong(&self, op: u64, h: &Strong, via: u8) {
        let id = h.identity(via);
        if let Strong::Erased(b) = h {
            let ids = b.identities();
            if ids.iter().any(|i| *i != id) {
                self.world.rec.rec(K::Anomaly {
                    prop: "C11",
                    what: format!("erased views of one handle disagree on identity: {ids:?}"),
                });
            }
        }
        self.world.rec.rec(K::Obs {
            op,
            id: id.id,
            ty: id.type_name.to_string(),
            alive: h.is_alive(via),
            upgradable: None,
        });
    }

    pub fn observe_weak(&self, op: u64, a: usize, w: &Weak, via: u8) {
        let id = w.identity(via);
        if let Weak::Erased(b) = w {
            let ids = b.identities();
            if ids.iter().any(|i| *i != id) {
                self.world.rec.rec(K::Anomaly {
                    prop: "C11",
                    what: format!("erased weak views of one handle disagree on identity: {ids:?}"),
                });
            }
        }
        let alive = w.is_alive(via);
        let up = w.upgrade(via).map(|s| Tracked::new(s, a, &self.world.rec));
        let upgradable = up.is_some();
        if let Some(s) = &up {
            if s.identity(via) != id {
                self.world.rec.rec(K::Anomaly {
                    prop: "C11",
                    what: format!("upgraded handle reports {} but the weak handle {}", s.identity(via), id),
                });
            }
        }
        drop(up);
        self.world.rec.rec(K::Obs {
            op,
            id: id.id,
            ty: id.type_name.to_string(),
            alive,
            upgradable: Some(upgradable),
        });
    }

    #[cfg(feature = "metrics")]
    fn read_metrics(&self, op: u64, a: usize, h: &Strong) {
        if let Strong::Direct(r) = h {
            let snap = r.metrics();
            let m = MetricsObs {
                count: r.message_count(),
                avg_ns: r.avg_processing_time().as_nanos() as u64,
                max_ns: r.max_processing_time().as_nanos() as u64,
                snap_count: snap.message_count,
                snap_avg_ns: snap.avg_processing_time.as_nanos() as u64,
                snap_max_ns: snap.max_processing_time.as_nanos() as u64,
                errors: r.error_count(),
            };
            let _ = (r.uptime(), r.last_activity());
            self.world.rec.rec(K::MetricsRead { op, a, m });
        }
    }
    #[cfg(not(feature = "metrics"))]
    fn read_metrics(&self, _op: u64, _a: usize, _h: &Strong) {}

    /// Execute one client operation (async variants). `i` is the op index.
    pub async fn exec(&self, hold: &mut Holdings, i: usize, op: &Op) {
        let seed = match self.routing {
            Routing::Erased(s) => s,
            _ => 0,
        };
        let via = mix(seed, self.c, i);
        let rec = &self.world.rec;
        match op {
            Op::Send { h, how, msg } => match hold.strong.get(*h).and_then(|s| s.as_ref()) {
                None => self.skipped(OpKind::Send { how: *how, mid: msg.id, ty: msg.ty }, *h),
                Some(s) => {
                    let opn = self.begin(s.a, OpKind::Send { how: *how, mid: msg.id, ty: msg.ty }, *h, via);
                    let res = s.inner.send(*how, msg.clone(), via, &self.world).await;
                    self.end(opn, res);
                }
            },
            Op::Stop { h } => match hold.strong.get(*h).and_then(|s| s.as_ref()) {
                None => self.skipped(OpKind::Stop, *h),
                Some(s) => {
                    let opn = self.begin(s.a, OpKind::Stop, *h, via);
                    let res = s.inner.stop(via).await;
                    self.end(opn, res);
                }
            },
            Op::StopT { h, t } => match hold.strong.get(*h).and_then(|s| s.as_ref()) {
                None => self.skipped(OpKind::Stop, *h),
                Some(s) => {
                    let opn = self.begin(s.a, OpKind::Stop, *h, via);
                    let res = match tokio::time::timeout(self.world.dur(*t), s.inner.stop(via)).await {
                        Ok(r) => r,
                        // abandoned: the stop() future was dropped before it returned
                        Err(_) => Res::ErrTimeout,
                    };
                    self.end(opn, res);
                }
            },
            Op::Kill { h } => match hold.strong.get(*h).and_then(|s| s.as_ref()) {
                None => self.skipped(OpKind::Kill, *h),
                Some(s) => {
                    let opn = self.begin(s.a, OpKind::Kill, *h, via);
                    let res = s.inner.kill(via);
                    self.end(opn, res);
                }
            },
            Op::Clone { h } => match hold.strong.get(*h).and_then(|s| s.as_ref()) {
                None => {
                    self.skipped(OpKind::Clone, *h);
                    hold.strong.push(None);
                }
                Some(s) => {
                    let a = s.a;
                    let opn = self.begin(a, OpKind::Clone, *h, via);
                    let n = Tracked::new(s.inner.clone_via(via), a, rec);
                    hold.strong.push(Some(n));
                    self.end(opn, Res::Ok);
                }
            },
            Op::Drop { h } => match hold.strong.get_mut(*h).and_then(|s| s.take()) {
                None => self.skipped(OpKind::Drop, *h),
                Some(s) => {
                    let opn = self.begin(s.a, OpKind::Drop, *h, via);
                    drop(s);
                    self.end(opn, Res::Ok);
                }
            },
            Op::Downgrade { h } => match hold.strong.get(*h).and_then(|s| s.as_ref()) {
                None => {
                    self.skipped(OpKind::Downgrade, *h);
                    hold.weak.push(None);
                }
                Some(s) => {
                    let opn = self.begin(s.a, OpKind::Downgrade, *h, via);
                    let w = s.inner.downgrade(via);
                    hold.weak.push(Some((s.a, w)));
                    self.end(opn, Res::Ok);
                }
            },
            Op::Upgrade { w } => match hold.weak.get(*w).and_then(|s| s.as_ref()) {
                None => {
                    self.skipped(OpKind::Upgrade, *w);
                    hold.strong.push(None);
                }
                Some((a, wk)) => {
                    let opn = self.begin(*a, OpKind::Upgrade, *w, via);
                    match wk.upgrade(via) {
                        Some(s) => {
                            let t = Tracked::new(s, *a, rec);
                            hold.strong.push(Some(t));
                            self.end(opn, Res::Some);
                        }
                        None => {
                            hold.strong.push(None);
                            self.end(opn, Res::None);
                        }
                    }
                }
            },
            Op::DropWeak { w } => match hold.weak.get_mut(*w).and_then(|s| s.take()) {
                None => self.skipped(OpKind::DropWeak, *w),
                Some((a, wk)) => {
                    let opn = self.begin(a, OpKind::DropWeak, *w, via);
                    drop(wk);
                    self.end(opn, Res::Ok);
                }
            },
            Op::CloneWeak { w } => match hold.weak.get(*w).and_then(|s| s.as_ref()) {
                None => {
                    self.skipped(OpKind::CloneWeak, *w);
                    hold.weak.push(None);
                }
                Some((a, wk)) => {
                    let opn = self.begin(*a, OpKind::CloneWeak, *w, via);
                    let n = wk.clone_via(via);
                    hold.weak.push(Some((*a, n)));
                    self.end(opn, Res::Ok);
                }
            },
            Op::Convert { h, erased, by_ref } => {
                if !matches!(self.routing, Routing::Mixed) {
                    self.skipped(OpKind::Convert { erased: *erased }, *h);
                    return;
                }
                let cur = hold.strong.get(*h).and_then(|s| s.as_ref());
                match cur {
                    Some(s) if *erased && matches!(s.inner, Strong::Direct(_)) => {
                        let a = s.a;
                        let opn = self.begin(a, OpKind::Convert { erased: true }, *h, via);
                        let nb = if let Strong::Direct(r) = &s.inner {
                            Bundle::from_ref(r, *by_ref)
                        } else {
                            unreachable!()
                        };
                        let n = Tracked::new(Strong::Erased(nb), a, rec);
                        hold.strong[*h] = Some(n);
                        self.end(opn, Res::Ok);
                    }
                    _ => self.skipped(OpKind::Convert { erased: *erased }, *h),
                }
            }
            Op::Probe { h } => match hold.strong.get(*h).and_then(|s| s.as_ref()) {
                None => self.skipped(OpKind::Probe, *h),
                Some(s) => {
                    let opn = self.begin(s.a, OpKind::Probe, *h, via);
                    self.observe_strong(opn, &s.inner, via);
                    self.end(opn, Res::Ok);
                }
            },
            Op::ProbeWeak { w } => match hold.weak.get(*w).and_then(|s| s.as_ref()) {
                None => self.skipped(OpKind::ProbeWeak, *w),
                Some((a, wk)) => {
                    let opn = self.begin(*a, OpKind::ProbeWeak, *w, via);
                    self.observe_weak(opn, *a, wk, via);
                    self.end(opn, Res::Ok);
                }
            },
            Op::Metrics { h } => match hold.strong.get(*h).and_then(|s| s.as_ref()) {
                None => self.skipped(OpKind::Metrics, *h),
                Some(s) => {
                    let opn = self.begin(s.a, OpKind::Metrics, *h, via);
                    self.read_metrics(opn, s.a, &s.inner);
                    self.end(opn, Res::Ok);
                }
            },
            Op::MetricsWeak { w } => match hold.weak.get(*w).and_then(|s| s.as_ref()) {
                None => self.skipped(OpKind::Metrics, *w),
                Some((a, wk)) => {
                    let opn = self.begin(*a, OpKind::Metrics, *w, via);
                    if let Some(s) = wk.upgrade(via) {
                        let t = Tracked::new(s, *a, rec);
                        self.read_metrics(opn, *a, &t.inner);
                    }
                    self.end(opn, Res::Ok);
                }
            },
        }
    }
}

/// Build the initial strong handle of a client according to the routing mode.
pub fn initial_handle(r: &ActorRef<SimActor>, routing: Routing, c: usize, slot: usize) -> Strong {
    match routing {
        Routing::Erased(seed) => Strong::Erased(Bundle::from_ref(r, mix(seed, c, 1000 + slot) & 1 == 0)),
        _ => Strong::Direct(r.clone()),
    }
}

pub async fn run_client(ctx: ClientCtx, spec: ClientSpec, mut hold: Holdings) -> Holdings {
    for (i, cop) in spec.ops.iter().enumerate() {
        if cop.delay > 0 {
            tokio::time::sleep(ctx.world.dur(cop.delay)).await;
        }
        for _ in 0..cop.yields {
            tokio::task::yield_now().await;
        }
        ctx.exec(&mut hold, i, &cop.op).await;
    }
    ctx.world.rec.rec(K::ClientDone { c: ctx.c });
    hold
}
