//! Oracles that are sound under true concurrency (real-thread engine): C17 and the real-thread
//! supplements. Only logical stamps (sequence numbers taken under one lock), set relations and
//! one-sided wall-clock bounds are used.

use crate::monitors as m1;
use crate::monitors2 as m2;
use crate::rt::LATE_SLACK_MS;
use crate::scenario::*;
use crate::trace::*;
use crate::view::*;

pub fn c17(v: &View) -> Vec<Violation> {
    let mut out = vec![];
    let re = |x: Violation| Violation { prop: "C17", kind: x.kind, detail: x.detail };
    // delivery (handled <= 1, rejected never, accepted-before-stop handled), ordering by stamps
    for x in m1::c01_core(v) {
        out.push(re(x));
    }
    for x in m1::c02(v) {
        out.push(re(x));
    }
    // reply integrity
    for x in m1::c03_replies(v) {
        out.push(re(x));
    }
    // dead letters (events always; counter where the build has it)
    for x in m2::c13(v) {
        out.push(re(x));
    }
    let end_t = v.evs.last().map(|e| e.t).unwrap_or(0);
    for o in v.sends() {
        let (how, mid, _) = o.send().unwrap();
        // error kinds: nothing succeeds on an actor whose JoinHandle had resolved before the call
        if let Some(j) = v.actors[o.a].joined_seq() {
            if o.b_seq > j && o.res.as_ref().map(|r| r.is_ok()).unwrap_or(false) {
                out.push(viol("C17", "send-succeeds-on-dead-actor", format!("{how:?} of message {mid} began after actor {} had ended and returned {:?}", o.a, o.res)));
            }
        }
        // a send fails with Send only once the actor has begun to end (sound by stamps: on_stop entry /
        // failure is recorded before the channel closes, which precedes the Err return)
        if matches!(o.res, Some(Res::ErrSend)) {
            let ended = v.actors[o.a].end_begin_seq().map(|e| e < o.e_seq.unwrap()).unwrap_or(false);
            if !ended {
                out.push(viol("C17", "send-failed-on-live-actor", format!("{how:?} of message {mid} failed with Send although actor {} had not begun to end", o.a)));
            }
        }
        let timeout_us = match how {
            How::BTell(Some(t)) | How::BAsk(Some(t)) | How::TellT(t) | How::AskT(t) => Some(t as u64 * 1000),
            _ => None,
        };
        match (&o.res, o.e_t) {
            (Some(Res::ErrTimeout), Some(e)) => match timeout_us {
                None => out.push(viol("C17", "timeout-without-timeout", format!("{how:?} of message {mid} returned Timeout although it has no (effective) timeout"))),
                Some(t) => {
                    let elapsed = e - o.b_t;
                    if elapsed + 1000 < t {
                        out.push(viol("C17", "early-timeout", format!("{how:?} of message {mid} returned Timeout after {elapsed} us, timeout {t} us")));
                    }
                    if elapsed > t + LATE_SLACK_MS * 1000 {
                        out.push(viol("C17", "late", format!("{how:?} of message {mid} returned Timeout after {elapsed} us, timeout {t} us")));
                    }
                }
            },
            (Some(Res::Panicked(m)), _) => out.push(viol("C17", "blocking-call-panicked", format!("{how:?} of message {mid} panicked: {m}"))),
            (None, _) | (_, None) => {
                // never returned
                if !matches!(o.src, Src::Client(_) | Src::Driver) {
                    continue;
                }
                let waited = end_t.saturating_sub(o.b_t);
                match timeout_us {
                    Some(t) if waited > t + LATE_SLACK_MS * 1000 => {
                        out.push(viol("C17", "late", format!("{how:?} of message {mid} had not returned {waited} us after it began (timeout {t} us)")));
                    }
                    None => {
                        if let Some((_, jt, _, _)) = &v.actors[o.a].joined {
                            if end_t.saturating_sub(*jt) > LATE_SLACK_MS * 1000 && *jt > o.b_t {
                                out.push(viol("C17", "hang-on-dead-actor", format!("{how:?} of message {mid} never returned although actor {} ended {} us before the end of the run", o.a, end_t - jt)));
                            }
                        }
                    }
                    _ => {}
                }
            }
            _ => {}
        }
    }
    for (c, msg) in &v.client_panics {
        out.push(viol("C17", "client-panicked", format!("client {c} panicked: {msg}")));
    }
    out
}

/// The part of C07 that is sound under true concurrency. (1) An actor that nobody stopped or
/// killed, that did not crash and to which the harness still holds a strong handle has not ended
/// when the clients are done, and does not refuse the post-mortem probes. (2) After the epilogue
/// (stop() on every actor, every handle dropped, 10 s of waiting) a healthy actor that is not inside
/// a hook and has been idle for 5 s has ended gracefully.
pub fn c07_rt(v: &View) -> Vec<Violation> {
    let mut out = vec![];
    let Some(h) = v.phase_seq[0] else { return out };
    let end_t = v.evs.last().map(|e| e.t).unwrap_or(0);
    for a in 0..v.actors.len() {
        let av = &v.actors[a];
        if !av.spawned || !av.started_ok() {
            continue;
        }
        let crashed = av.panic_seq.is_some() || av.run_err.is_some();
        if crashed || v.any_kill(a) {
            continue;
        }
        let stop_called = v.ops.iter().any(|o| o.a == a && o.kind == OpKind::Stop && !o.skipped() && o.b_seq < h);
        let probes: Vec<&OpRec> = v.ops.iter().filter(|o| o.a == a && o.phase == 1 && o.src == Src::Driver).collect();
        if !stop_called && !probes.is_empty() && av.strong_at(h) >= 1 {
            if av.joined_seq().map(|j| j < h).unwrap_or(false) || av.stop_begin.map(|s| s.0 < h).unwrap_or(false) {
                out.push(viol("C07", "spontaneous-end", format!("actor {a} ended (joined={:?}, on_stop={:?}) although a strong handle is held and no stop/kill/error/panic occurred", av.joined_seq(), av.stop_begin)));
            }
            for o in &probes {
                if let Some((how, _, _)) = o.send() {
                    if matches!(o.res, Some(Res::ErrSend) | Some(Res::ErrRecv)) {
                        out.push(viol("C07", "live-actor-not-serving", format!("actor {a} is referenced and was never stopped, but the probe {how:?} ended as {:?}", o.res)));
                    }
                }
            }
        }
        // (2)
        if v.phase_seq[2].is_some() && av.joined.is_none() {
            let in_hook = {
                let mut busy = false;
                for (_, _, hk) in &av.hooks {
                    match hk {
                        HookEv::StartBegin | HookEv::HBegin(_) | HookEv::StopBegin(_) => busy = true,
                        HookEv::StartEnd(..) | HookEv::HEnd(..) | HookEv::StopEnd(..) => busy = false,
                        _ => {}
                    }
                }
                busy
            };
            let last_t = av.hooks.last().map(|x| x.1).unwrap_or(0);
            if !in_hook && end_t.saturating_sub(last_t) > 5_000_000 {
                out.push(viol("C07", "did-not-end", format!("actor {a}: every handle was dropped{} and it has been idle for {} us, yet its JoinHandle has not resolved", if v.ops.iter().any(|o| o.a == a && o.kind == OpKind::Stop && matches!(o.res, Some(Res::Ok))) { " and stop() was accepted" } else { "" }, end_t - last_t)));
            }
        } else if let Some((_, _, killed)) = av.stop_begin {
            if killed {
                out.push(viol("C07", "not-graceful", format!("actor {a} was never killed but on_stop received killed=true")));
            }
        }
    }
    out
}

/// The part of C11 that is sound under true concurrency. An observation is made somewhere between
/// the stamp of its OpBegin and the stamp of its Obs / OpEnd event; the harness-side handle count is
/// a lower bound of the true one at every instant (a creation is stamped after, a drop before it
/// happens).
pub fn c11_rt(v: &View) -> Vec<Violation> {
    let mut out = vec![];
    for (_, p, what) in &v.anomalies {
        if *p == "C11" {
            out.push(viol("C11", "identity-mismatch", what.clone()));
        }
    }
    for a in 0..v.actors.len() {
        for b in (a + 1)..v.actors.len() {
            if v.actors[a].spawned && v.actors[b].spawned && v.actors[a].id == v.actors[b].id {
                out.push(viol("C11", "duplicate-id", format!("actors {a} and {b} share id {}", v.actors[a].id)));
            }
        }
    }
    let min_strong = |av: &ActorView, b: u64, e: u64| -> i32 {
        let mut n = av.strong_at(b);
        for (s, c) in &av.strong {
            if *s >= b && *s <= e {
                n = n.min(*c);
            }
        }
        n
    };
    for e in v.evs {
        let K::Obs { op, id, ty, alive, upgradable } = &e.k else { continue };
        let Some(o) = v.op(*op) else { continue };
        if o.a >= v.actors.len() {
            continue;
        }
        let av = &v.actors[o.a];
        if *id != av.id || *ty != av.ty {
            out.push(viol("C11", "identity-mismatch", format!("a handle derived from actor {} ({}#{}) reports {}#{}", o.a, av.ty, av.id, ty, id)));
        }
        let p = e.seq;
        match upgradable {
            None => {
                if av.end_begin_seq().map(|x| x > p).unwrap_or(true) && !*alive {
                    out.push(viol("C11", "is-alive-false-on-live-actor", format!("is_alive() = false on actor {} at seq {p}, before it began to end", o.a)));
                }
                if av.joined_seq().map(|j| j < o.b_seq).unwrap_or(false) && *alive {
                    out.push(viol("C11", "is-alive-true-on-dead-actor", format!("is_alive() = true on actor {}, probed after its JoinHandle resolved", o.a)));
                }
            }
            Some(u) => {
                let n = min_strong(av, o.b_seq, p);
                if n > 0 && !*u {
                    out.push(viol("C11", "upgrade-none-while-referenced", format!("upgrade() = None on actor {} at seq {p} while at least {n} strong handle(s) were held throughout", o.a)));
                }
            }
        }
    }
    for o in v.ops.iter().filter(|o| o.kind == OpKind::Upgrade && o.a < v.actors.len()) {
        let av = &v.actors[o.a];
        let Some(e) = o.e_seq else { continue };
        let n = min_strong(av, o.b_seq, e);
        if matches!(o.res, Some(Res::None)) && n > 0 {
            out.push(viol("C11", "upgrade-none-while-referenced", format!("upgrade() = None on actor {} (seq {}..{e}) while at least {n} strong handle(s) were held throughout", o.a, o.b_seq)));
        }
    }
    for o in v.sends() {
        if let Some(j) = v.actors[o.a].joined_seq() {
            if o.b_seq > j && o.res.as_ref().map(|r| r.is_ok()).unwrap_or(false) {
                out.push(viol("C11", "send-succeeds-on-dead-actor", format!("{:?} on ended actor {} returned {:?}", o.kind, o.a, o.res)));
            }
        }
    }
    out
}

pub fn c17_labels(v: &View, l: &mut Vec<&'static str>) {
    let blocking: Vec<&OpRec> = v.sends().filter(|o| o.send().unwrap().0.is_blocking() && matches!(o.src, Src::Client(_))).collect();
    for x in &blocking {
        for y in &blocking {
            if x.src != y.src && x.b_seq < y.b_seq && x.e_seq.map(|e| e > y.b_seq).unwrap_or(true) {
                l.push("two_blocking_callers_overlap");
            }
        }
        let (how, _, _) = x.send().unwrap();
        if how.timeout().is_some() && !matches!(how, How::DepTell(_) | How::DepAsk(_)) {
            if matches!(x.res, Some(Res::ErrTimeout)) {
                l.push("blocking_timeout_expired");
            }
            if x.e_t.map(|e| e - x.b_t > 2000).unwrap_or(false) {
                l.push("blocking_with_timeout_waited");
            }
        }
        if matches!(how, How::DepTell(Some(_)) | How::DepAsk(Some(_))) {
            l.push("deprecated_alias_with_timeout_arg");
        }
        if x.res.as_ref().map(|r| r.is_err()).unwrap_or(false) {
            l.push("blocking_call_failed");
        }
    }
    let modes: std::collections::HashSet<_> = v.sc.clients.iter().map(|c| format!("{:?}", c.mode)).collect();
    if modes.len() >= 2 {
        l.push("mixed_client_kinds");
    }
    if v.sc.clients.iter().any(|c| c.mode == ClientMode::Task && c.ops.iter().any(|o| matches!(&o.op, Op::Send { how, .. } if how.is_blocking()))) {
        l.push("blocking_with_timeout_from_async_context");
    }
    l.sort();
    l.dedup();
}
