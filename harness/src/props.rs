//! Registry: for each property its generator profiles, oracle, labels and non-triviality rule.

use crate::gen::{Peer, Profile};
use crate::monitors as m;
use crate::monitors2 as m2;
use crate::monitors3 as m3;
use crate::view::{View, Violation};

pub struct PropDef {
    pub id: &'static str,
    pub profiles: Vec<Profile>,
    pub monitor: fn(&View) -> Vec<Violation>,
    pub labels: fn(&View, &mut Vec<&'static str>),
    /// a case is non-trivial if it carries at least one of these labels
    pub nontrivial: &'static [&'static str],
    pub rule: &'static str,
    pub quick_cases: u32,
    pub thorough_cases: u32,
    pub tape_len: usize,
    pub log_polls: bool,
    pub mode: Mode,
}

impl PropDef {
    pub fn is_rt(&self) -> bool {
        self.mode == Mode::RealThreads
    }
}

#[derive(Clone, Copy, PartialEq, Debug)]
pub enum Mode {
    /// run the scenario once, apply the monitor
    Single,
    /// run with direct and with erased routing, compare canonical traces (C16)
    DiffErased,
    /// run here and in the default-feature reference process, compare canonical traces (C18)
    DiffRef,
    /// run on the real-thread engine (multi_thread runtime, OS threads, blocking API)
    RealThreads,
}

fn no_labels(_: &View, _: &mut Vec<&'static str>) {}

pub fn thorough_scale(p: &mut Profile) {
    p.actors.1 += 1;
    p.clients.1 += 2;
    p.ops.1 += 6;
    p.caps.extend_from_slice(&[5, 16, 64, 128, 256]);
}

/// Real-thread supplement of a simulator property: the C17 scenario shapes (OS threads,
/// spawn_blocking, tasks; async and blocking calls) with the part of the property's oracle that
/// is sound under arbitrary interleaving.
pub fn get_rt(id: &str, thorough: bool) -> Option<PropDef> {
    let c17 = get("C17", thorough)?;
    let monitor: fn(&View) -> Vec<Violation> = match id {
        "C01" => m::c01_core,
        "C02" => m::c02,
        "C03" => m::c03_replies,
        "C06" => m::c06_rt,
        "C07" => m3::c07_rt,
        "C11" => m3::c11_rt,
        "C13" => m2::c13,
        _ => return None,
    };
    let mut profiles = c17.profiles;
    if id == "C07" || id == "C11" {
        for p in profiles.iter_mut() {
            p.w_clone = 3;
            p.w_drop = 4;
            p.w_downgrade = 3;
            p.w_upgrade = 4;
            p.w_cloneweak = 1;
            p.w_dropweak = 1;
            p.w_probe = if id == "C11" { 5 } else { 1 };
            p.w_probeweak = if id == "C11" { 5 } else { 1 };
            p.p_end_drop = (1, 2);
        }
    }
    if id == "C06" {
        for p in profiles.iter_mut() {
            p.w_kill = 4;
            p.w_how = [12, 2, 4, 1, 0];
        }
    }
    Some(PropDef {
        id: match id {
            "C01" => "C01",
            "C02" => "C02",
            "C03" => "C03",
            "C06" => "C06",
            "C07" => "C07",
            "C11" => "C11",
            _ => "C13",
        },
        profiles,
        monitor,
        labels: m3::c17_labels,
        nontrivial: &["two_blocking_callers_overlap", "mixed_client_kinds", "blocking_call_failed"],
        rule: "real-thread supplement: C17 scenario shapes on a multi_thread runtime with OS threads; only the interleaving-sound part of the oracle",
        quick_cases: 120,
        thorough_cases: 300,
        tape_len: 400,
        log_polls: false,
        mode: Mode::RealThreads,
    })
}

pub fn get(id: &str, thorough: bool) -> Option<PropDef> {
    let mut d = match id {
        "C01" => {
            let mut p = Profile::base("C01");
            p.p_cancel = (1, 6);
            p.w_stopt = 1;
            p.caps = vec![1, 1, 2, 2, 3, 4, 8, 32, 0];
            p.clients = (2, 6);
            p.ops = (1, 10);
            p.w_how = [10, 5, 5, 3, 1];
            p.w_stop = 2;
            p.p_end_drop = (2, 3);
            p.p_delay = (1, 4);
            let mut q = p.clone();
            q.name = "C01-gate";
            q.p_start_sleep = (2, 3);
            q.start_sleep = 30;
            q.caps = vec![1, 2, 3];
            q.peer = Peer::Dag;
            q.actors = (1, 3);
            q.p_peer = (1, 5);
            PropDef {
                id: "C01",
                profiles: vec![p, q],
                monitor: m::c01,
                labels: m::c01_labels,
                nontrivial: &["tell_waited_for_slot", "op_timed_out", "last_ref_dropped_with_queue", "stop_while_sender_pending"],
                rule: "scenario = scripted actors + concurrent client scripts (tell/ask/*_with_timeout, clone/drop/downgrade/upgrade, stop) generated from a choice tape by proptest; distinct by FNV-1a of the canonical scenario JSON; non-trivial iff in the executed trace a tell waited for a mailbox slot, or a *_with_timeout timed out, or the last strong handle was dropped with >=1 accepted message still queued, or stop() was issued while another sender was pending",
                quick_cases: 20000,
                thorough_cases: 60000,
                tape_len: 500,
                log_polls: false,
                mode: Mode::Single,
            }
        }
        "C02" => {
            let mut p = Profile::base("C02");
            p.p_cancel = (1, 6);
            p.w_stopt = 1;
            p.caps = vec![1, 1, 1, 2, 2, 3];
            p.clients = (3, 6);
            p.ops = (1, 8);
            p.w_how = [10, 5, 6, 4, 0];
            p.w_convert = 3;
            p.p_delay = (1, 5);
            p.p_start_sleep = (1, 2);
            p.start_sleep = 20;
            PropDef {
                id: "C02",
                profiles: vec![p],
                monitor: m::c02,
                labels: m::c02_labels,
                nontrivial: &["two_senders_waiting_for_slot", "one_sender_ask_and_tell_handled", "send_racing_stop"],
                rule: "scenarios biased to capacity 1-3 with 3-6 senders; distinct by scenario hash; non-trivial iff >=2 senders were simultaneously waiting for a slot of one mailbox, or one sender had both an ask and a tell handled, or a send was in flight when stop() was called",
                quick_cases: 20000,
                thorough_cases: 60000,
                tape_len: 500,
                log_polls: false,
                mode: Mode::Single,
            }
        }
        "C03" => {
            let mut p = Profile::base("C03");
            p.p_cancel = (1, 6);
            p.clients = (3, 8);
            p.ops = (1, 6);
            p.w_how = [2, 1, 10, 6, 5];
            p.w_stop = 2;
            p.w_kill = 2;
            p.w_start_out = [8, 1, 1];
            p.w_stop_out = [8, 1, 1];
            p.w_run_out = [2, 2, 1, 1];
            p.w_msg_out = [16, 2, 2];
            p.runs = (0, 2);
            p.caps = vec![1, 2, 3, 8, 32];
            p.p_start_sleep = (1, 2);
            PropDef {
                id: "C03",
                profiles: vec![p],
                monitor: m::c03,
                labels: m::c03_labels,
                nontrivial: &["two_asks_outstanding_at_end", "ask_join_failing_job"],
                rule: "3-8 concurrent askers (ask, ask_with_timeout, ask_join, erased) against actors that end by every cause at generated instants; distinct by scenario hash; non-trivial iff >=2 asks were outstanding on an actor at the moment it began to end, or an ask_join met a panicking/aborted job",
                quick_cases: 20000,
                thorough_cases: 60000,
                tape_len: 500,
                log_polls: false,
                mode: Mode::Single,
            }
        }
        "C04" | "C05" => {
            let mut p = Profile::base(if id == "C04" { "C04" } else { "C05" });
            p.w_stopt = 1;
            p.clients = (1, 5);
            p.ops = (1, 8);
            p.w_stop = 4;
            p.w_kill = 4;
            p.w_start_out = [6, 1, 1];
            p.w_stop_out = [5, 2, 1];
            p.w_run_out = [3, 2, 2, 1];
            p.w_msg_out = [16, 2, 1];
            p.runs = (0, 3);
            p.start_sleep = 16;
            p.p_start_sleep = (1, 2);
            p.stop_sleep = 10;
            p.p_stop_sleep = (1, 2);
            p.p_kill_self = (1, 30);
            p.max_delay = 8;
            if id == "C04" {
                PropDef {
                    id: "C04",
                    profiles: vec![p],
                    monitor: m::c04,
                    labels: m::c04_labels,
                    nontrivial: &["cause_during_hook", "two_causes_within_2ms"],
                    rule: "every termination cause (stop, kill, last drop, on_start error/panic, on_run error/panic, handler/on_stop panic) arriving in every phase, with all hook outcome combinations; distinct by scenario hash; non-trivial iff a termination cause arrived while a hook was executing or two causes arrived within 2 virtual ms",
                    quick_cases: 20000,
                    thorough_cases: 60000,
                    tape_len: 500,
                    log_polls: false,
                    mode: Mode::Single,
                }
            } else {
                PropDef {
                    id: "C05",
                    profiles: vec![p],
                    monitor: m::c05,
                    labels: m::c04_labels,
                    nontrivial: &["cause_during_hook", "two_causes_within_2ms", "on_run_error", "panic", "on_start_error"],
                    rule: "as C04 with unique error tags per hook invocation; distinct by scenario hash; non-trivial iff the run ended other than by an uncontended graceful stop (cause during a hook, racing causes, on_run/on_start error, panic)",
                    quick_cases: 20000,
                    thorough_cases: 60000,
                    tape_len: 500,
                    log_polls: false,
                    mode: Mode::Single,
                }
            }
        }
        "C06" => {
            let mut p = Profile::base("C06");
            p.w_stopt = 1;
            p.clients = (2, 6);
            p.ops = (2, 10);
            p.w_kill = 3;
            p.w_stop = 1;
            p.w_how = [12, 2, 6, 2, 0];
            p.caps = vec![1, 2, 4, 8, 16, 32, 64, 0];
            p.p_delay = (1, 5);
            p.max_work = 12;
            p.p_work = (3, 4);
            p.p_start_sleep = (1, 2);
            p.start_sleep = 20;
            p.runs = (0, 2);
            p.p_end_drop = (1, 3);
            PropDef {
                id: "C06",
                profiles: vec![p],
                monitor: m::c06,
                labels: m::c06_labels,
                nontrivial: &["kill_with_queue>=2"],
                rule: "kill() (direct and through erased controls) at generated instants against actors with 0-64 queued messages in every phase; distinct by scenario hash; non-trivial iff >=2 messages were in the mailbox when a kill() returned on an actor that had not begun to end",
                quick_cases: 20000,
                thorough_cases: 60000,
                tape_len: 600,
                log_polls: false,
                mode: Mode::Single,
            }
        }
        "C07" => {
            let mut p = Profile::base("C07");
            p.p_cancel = (1, 6);
            p.w_stopt = 2;
            p.clients = (1, 4);
            p.ops = (2, 12);
            p.w_send = 10;
            p.w_clone = 5;
            p.w_drop = 7;
            p.w_downgrade = 4;
            p.w_upgrade = 5;
            p.w_dropweak = 2;
            p.w_cloneweak = 2;
            p.w_convert = 4;
            p.w_stop = 1;
            p.p_keep = (1, 12);
            p.runs = (0, 2);
            p.w_run_out = [2, 4, 0, 0];
            p.init_all = false;
            p.p_end_drop = (1, 2);
            PropDef {
                id: "C07",
                profiles: vec![p],
                monitor: m::c07,
                labels: m::c07_labels,
                nontrivial: &["last_strong_gone_with_queue", "last_strong_gone_weak_remaining", "alive_after_on_run_false", "erased_handle_held", "upgraded_handle"],
                rule: "histories of clone/drop/downgrade/upgrade/convert-to-trait-object interleaved with traffic; harness-side model = number of strong handles it holds; distinct by scenario hash; non-trivial iff the last strong handle disappeared with messages queued or with weak handles remaining, or an actor was alive and serving after on_run returned Ok(false), or an erased / upgraded handle was the one keeping the actor",
                quick_cases: 20000,
                thorough_cases: 60000,
                tape_len: 500,
                log_polls: false,
                mode: Mode::Single,
            }
        }
        "C08" => {
            let mut p = Profile::base("C08");
            p.p_kill_self = (1, 16);
            p.runs = (1, 4);
            p.run_sleep = 10;
            p.w_run_out = [5, 3, 1, 0];
            p.w_tail = [1, 1];
            p.clients = (1, 4);
            p.ops = (1, 10);
            p.w_how = [12, 2, 4, 2, 0];
            p.w_kill = 1;
            p.p_delay = (2, 3);
            p.max_delay = 10;
            p.caps = vec![1, 2, 4, 8, 32, 0];
            // bursts of more than 128 ready messages: the coop-budget boundary of the pinned tokio
            let mut b = p.clone();
            b.name = "C08-burst";
            b.clients = (1, 2);
            b.ops = (130, 170);
            b.caps = vec![256, 32, 0];
            b.p_delay = (1, 80);
            b.p_work = (1, 40);
            b.w_how = [30, 1, 1, 0, 0];
            b.w_stop = 0;
            b.w_kill = 0;
            b.w_clone = 0;
            b.w_drop = 0;
            b.w_downgrade = 0;
            b.w_convert = 0;
            b.w_probe = 0;
            b.w_probeweak = 0;
            b.w_run_out = [8, 1, 0, 0];
            b.runs = (2, 4);
            b.p_end_drop = (0, 1);
            PropDef {
                id: "C08",
                profiles: vec![p, b],
                monitor: m::c08,
                labels: m::c08_labels,
                nontrivial: &["message_interrupted_on_run", "traffic_after_ok_false"],
                rule: "on_run scripts (await durations, then Ok(true)/Ok(false)/Err) with message arrivals placed around their await points; distinct by scenario hash; non-trivial iff a message was handled while an on_run invocation was suspended at an await, or traffic continued after on_run returned Ok(false)",
                quick_cases: 20000,
                thorough_cases: 60000,
                tape_len: 1500,
                log_polls: true,
                mode: Mode::Single,
            }
        }
        "C09" => {
            let mut p = Profile::base("C09");
            p.p_cancel = (1, 6);
            p.w_stopt = 2;
            p.caps = vec![1, 2, 3, 4, 5, 8, 16, 32, 0];
            p.clients = (1, 8);
            p.ops = (2, 12);
            p.w_how = [14, 3, 3, 1, 0];
            p.w_stop = 2;
            p.p_delay = (1, 6);
            p.p_start_sleep = (2, 3);
            p.start_sleep = 40;
            p.max_work = 10;
            p.p_work = (3, 4);
            p.p_end_drop = (1, 4);
            let mut q = p.clone();
            q.name = "C09-burst";
            q.ops = (20, 45);
            q.clients = (1, 3);
            q.caps = vec![16, 32, 0, 64];
            q.p_delay = (1, 20);
            PropDef {
                id: "C09",
                profiles: vec![p, q],
                monitor: m::c09,
                labels: m::c09_labels,
                nontrivial: &["send_waited_for_slot", "stop_waited_for_slot"],
                rule: "capacities 1-256 (and spawn default), 1-8 senders, a gate (slow on_start / slow handlers) so the mailbox fills; occupancy bounds recomputed from the trace at every event and every quiescent instant; distinct by scenario hash; non-trivial iff at least one tell/stop had to wait for a slot",
                quick_cases: 15000,
                thorough_cases: 50000,
                tape_len: 900,
                log_polls: false,
                mode: Mode::Single,
            }
        }
        "C10" => {
            let mut p = Profile::base("C10");
            p.p_late = (1, 4);
            p.w_how = [1, 8, 1, 10, 0];
            p.timeouts = vec![0, 1, 2, 3, 4, 5, 6, 7, 8, 10, 12, 16, 20, 30, 40, 1_000_000, crate::scenario::MS_MAX];
            p.caps = vec![1, 1, 2, 3, 8, 32];
            p.clients = (1, 5);
            p.ops = (1, 8);
            p.max_work = 16;
            p.p_work = (4, 5);
            p.w_kill = 1;
            p.w_stop = 1;
            p.w_msg_out = [20, 2, 1];
            p.p_start_sleep = (1, 2);
            p.start_sleep = 20;
            p.p_delay = (1, 3);
            PropDef {
                id: "C10",
                profiles: vec![p],
                monitor: m::c10,
                labels: m::c10_labels,
                nontrivial: &["tie", "near_deadline", "tell_timeout", "failure_before_deadline", "tell_t_waited_then_ok"],
                rule: "tell_with_timeout / ask_with_timeout with timeouts 0..40 ms (odd and even) and one huge value, natural completion placed before/at/after/never relative to the deadline, mailbox free/full/closed, actor dying before the deadline; all instants compared in virtual ms; distinct by scenario hash; non-trivial iff |completion - deadline| <= 2 ms, or a tell timed out / waited on a full mailbox, or a non-timeout failure occurred during a timed call",
                quick_cases: 20000,
                thorough_cases: 60000,
                tape_len: 500,
                log_polls: false,
                mode: Mode::Single,
            }
        }
        "C11" => {
            let mut p = Profile::base("C11");
            p.w_probe = 8;
            p.w_probeweak = 7;
            p.w_downgrade = 4;
            p.w_upgrade = 5;
            p.w_cloneweak = 2;
            p.w_convert = 3;
            p.w_kill = 2;
            p.w_stop = 2;
            p.w_start_out = [8, 1, 1];
            p.w_stop_out = [8, 1, 1];
            p.w_msg_out = [16, 1, 1];
            p.w_run_out = [2, 2, 1, 1];
            p.p_start_sleep = (2, 3);
            p.start_sleep = 16;
            p.p_stop_sleep = (2, 3);
            p.stop_sleep = 12;
            p.ops = (2, 12);
            p.actors = (1, 3);
            PropDef {
                id: "C11",
                profiles: vec![p],
                monitor: m::c11,
                labels: m::c11_labels,
                nontrivial: &["probe_during_on_start", "probe_during_on_stop", "probe_after_end", "weak_probe_after_end"],
                rule: "identity()/is_alive()/upgrade() probes through every kind of derived handle (clone, weak, upgraded, every erased view) at generated instants of lifecycles ending by every cause; distinct by scenario hash; non-trivial iff a probe was taken during on_start, during on_stop or after the actor ended",
                quick_cases: 20000,
                thorough_cases: 60000,
                tape_len: 500,
                log_polls: false,
                mode: Mode::Single,
            }
        }

        "C12" => {
            let mut p = Profile::base("C12");
            p.p_par = (1, 2);
            p.max_peer_sends = 3;
            p.p_cancel = (1, 6);
            p.actors = (2, 4);
            p.clients = (1, 4);
            p.ops = (1, 8);
            p.peer = Peer::Dag;
            p.p_peer = (1, 2);
            p.p_hook_peer = (1, 3);
            p.w_peer_how = [4, 2, 8, 4];
            p.w_start_out = [8, 1, 2];
            p.w_stop_out = [8, 1, 2];
            p.w_run_out = [3, 2, 1, 2];
            p.w_msg_out = [12, 2, 3];
            p.runs = (0, 2);
            p.w_kill = 1;
            p.w_stop = 1;
            p.w_how = [8, 3, 8, 4, 1];
            p.late_spawn = true;
            p.sampler = true;
            let mut q = p.clone();
            q.name = "C12-cyclic";
            q.peer = Peer::Any;
            q.w_peer_how = [0, 0, 8, 4];
            q.peer_depth = 3;
            PropDef {
                id: "C12",
                profiles: vec![p, q],
                monitor: m2::c12,
                labels: m2::c12_labels,
                nontrivial: &["peer_op_in_flight_to_victim", "victim_op_in_flight_to_peer", "client_op_in_flight_to_victim"],
                rule: "2-4 actors exchanging asks/tells with a panic or error injected into a generated hook invocation (on_start, k-th handler, k-th on_run, on_stop) of some actor; all other monitors are applied to the whole system, plus victim-specific checks, a fresh actor spawned afterwards, dead-letter accounting and (full build) wait-for-graph residue; the C12-cyclic profile (ask cycles) is generated only for the build with deadlock detection; distinct by scenario hash; non-trivial iff an operation between the victim and a peer or client was in flight when the victim failed",
                quick_cases: 12000,
                thorough_cases: 150000,
                tape_len: 700,
                log_polls: false,
                mode: Mode::Single,
            }
        }
        "C13" => {
            let mut p = Profile::base("C13");
            p.p_cancel = (1, 6);
            p.clients = (1, 6);
            p.ops = (2, 10);
            p.caps = vec![1, 1, 2, 3, 8, 32];
            p.w_how = [6, 6, 6, 6, 2];
            p.timeouts = vec![0, 2, 4, 6, 10, 20];
            p.w_kill = 2;
            p.w_stop = 2;
            p.w_start_out = [8, 1, 1];
            p.w_stop_out = [8, 1, 1];
            p.w_msg_out = [14, 2, 2];
            p.w_run_out = [2, 2, 1, 1];
            p.p_start_sleep = (1, 2);
            p.start_sleep = 20;
            p.max_work = 12;
            p.p_end_drop = (1, 4);
            p.peer = Peer::Dag;
            p.actors = (1, 3);
            p.p_peer = (1, 4);
            PropDef {
                id: "C13",
                profiles: vec![p],
                monitor: m2::c13,
                labels: m2::c13_labels,
                nontrivial: &["two_failure_reasons"],
                rule: "every tell/ask-family operation against actors in every lifecycle state (not started, running, full mailbox, stopping, dead by each cause); dead-letter records captured by an in-process tracing subscriber are matched one-to-one against failed operations (target id, message type name, reason, operation label) and against dead_letter_count(); distinct by scenario hash; non-trivial iff failures of at least two different reasons occurred in the case",
                quick_cases: 15000,
                thorough_cases: 150000,
                tape_len: 600,
                log_polls: false,
                mode: Mode::Single,
            }
        }
        "C14" | "C15" => {
            let mut p = Profile::base(if id == "C14" { "C14" } else { "C15" });
            p.p_cancel = (1, 6);
            p.actors = (1, 5);
            p.clients = (1, 4);
            p.ops = (1, 6);
            p.peer = Peer::Any;
            p.peer_depth = 4;
            p.p_peer = (3, 5);
            p.p_hook_peer = (1, 4);
            p.w_peer_how = [0, 0, 8, 4];
            p.timeouts = vec![2, 4, 6, 10, 20, 40];
            p.w_how = [8, 2, 8, 3, 0];
            p.runs = (0, 2);
            p.w_run_out = [3, 3, 0, 0];
            p.caps = vec![1, 2, 4, 8, 32];
            p.w_kill = 0;
            p.w_stop = 1;
            p.w_msg_out = [20, 1, 0];
            p.max_work = 6;
            p.max_delay = 16;
            p.sampler = true;
            p.max_peer_sends = 3;
            let mut ring = p.clone();
            ring.name = if id == "C14" { "C14-ring" } else { "C15-ring" };
            ring.actors = (3, 5);
            ring.peer = Peer::Others;
            ring.p_peer = (4, 5);
            ring.p_hook_peer = (1, 5);
            ring.clients = (1, 3);
            if id == "C14" {
                // C14's oracle does not look at the graph; sampling it would only make the run
                // quadratically slow on a tree that leaks edges (which is C15's business to report)
                p.sampler = false;
                ring.sampler = false;
                PropDef {
                    id: "C14",
                    profiles: vec![p, ring],
                    monitor: m2::c14,
                    labels: m2::c14_labels,
                    nontrivial: &["cycle_len_2", "cycle_len>=3", "cycle_through_lifecycle_hook"],
                    rule: "1-5 actors whose hooks (on_start, handlers, on_run, on_stop) contain sequential directly-awaited asks (ask / ask_with_timeout) to arbitrary peers including themselves; logical wait-for graph rebuilt from the trace; distinct by scenario hash; non-trivial iff a would-be cycle of length >= 2 occurred or a cycle ran through a lifecycle hook",
                    quick_cases: 15000,
                    thorough_cases: 150000,
                    tape_len: 700,
                    log_polls: false,
                    mode: Mode::Single,
                }
            } else {
                p.w_kill = 1;
                p.w_msg_out = [20, 1, 1];
                p.p_par = (1, 2);
                ring.p_par = (1, 2);
                PropDef {
                    id: "C15",
                    profiles: vec![p, ring],
                    monitor: m2::c15,
                    labels: m2::c15_labels,
                    nontrivial: &["reverse_ask_within_2ms_of_reply", "actor_ask_timed_out", "actor_ask_cancelled", "actor_ask_failed", "actor_ask_panicked"],
                    rule: "same topology generator as C14 (statically cyclic, mostly acyclic in time) with timeouts, cancellations (on_run pre-emption), callee deaths and non-actor askers; every deadlock panic must be justified by a chain of unanswered asks in the logical graph; the real wait-for graph (verification hook) is sampled at every odd virtual millisecond (a quiescent instant by construction) and must equal the set of asks in flight; distinct by scenario hash; non-trivial iff B asked A within 2 ms after answering A, or an actor-context ask ended by timeout / cancellation / failure / panic",
                    quick_cases: 15000,
                    thorough_cases: 150000,
                    tape_len: 700,
                    log_polls: false,
                    mode: Mode::Single,
                }
            }
        }
        "C16" => {
            let mut p = Profile::base("C16");
            p.p_lazy = (1, 3);
            p.clients = (1, 5);
            p.ops = (2, 12);
            p.w_how = [6, 5, 6, 5, 3];
            p.w_stop = 3;
            p.w_kill = 2;
            p.w_clone = 3;
            p.w_drop = 3;
            p.w_downgrade = 3;
            p.w_upgrade = 4;
            p.w_cloneweak = 2;
            p.w_dropweak = 1;
            p.w_convert = 0;
            p.w_probe = 3;
            p.w_probeweak = 3;
            p.w_routing = [1, 0, 0];
            p.caps = vec![1, 2, 3, 8, 32, 0];
            p.w_msg_out = [16, 2, 1];
            p.w_start_out = [10, 1, 0];
            p.runs = (0, 2);
            p.actors = (1, 3);
            p.init_all = false;
            PropDef {
                id: "C16",
                profiles: vec![p],
                monitor: m::c01,
                labels: m2::c16_labels,
                nontrivial: &["three_wrapper_kinds_with_timeout_or_lifecycle"],
                rule: "metamorphic: each generated scenario is executed twice in the deterministic simulator - once with plain ActorRef/ActorWeak handles, once with every client handle held as a bundle of type-erased trait objects (TellHandler, AskHandler, ActorControl and their weak forms, built through both From forms) and every operation routed through a pseudo-randomly chosen equivalent erased path (direct, clone_boxed, Clone for Box, downgrade+upgrade, as_control/as_weak_control); the canonical traces (virtual times, results, hook order, final results, identities, dead letters) must be equal; distinct by scenario hash; non-trivial iff the erased run used >= 3 different operation kinds and included a timeout or lifecycle operation",
                quick_cases: 12000,
                thorough_cases: 40000,
                tape_len: 600,
                log_polls: false,
                mode: Mode::DiffErased,
            }
        }
        "C18" => {
            let mut p = Profile::base("C18");
            p.p_par = (1, 2);
            p.max_peer_sends = 3;
            p.actors = (2, 4);
            p.clients = (1, 5);
            p.ops = (1, 8);
            p.peer = Peer::Others;
            p.peer_depth = 2;
            p.p_peer = (1, 3);
            p.p_hook_peer = (1, 6);
            p.w_peer_how = [6, 2, 8, 4];
            p.w_how = [8, 4, 8, 5, 2];
            p.w_kill = 2;
            p.w_stop = 2;
            p.w_start_out = [10, 1, 1];
            p.w_stop_out = [10, 1, 1];
            p.w_run_out = [3, 3, 1, 1];
            p.w_msg_out = [16, 2, 1];
            p.runs = (0, 2);
            p.caps = vec![1, 2, 3, 8, 32, 0];
            p.w_metrics = 1;
            // ask-heavy topologies (as in the C15 profile): cycle-free in time, cyclic in space
            let mut q = p.clone();
            q.name = "C18-asks";
            q.actors = (2, 4);
            q.peer = Peer::Others;
            q.peer_depth = 2;
            q.p_peer = (2, 5);
            q.p_hook_peer = (1, 4);
            q.w_peer_how = [0, 0, 8, 4];
            q.w_kill = 0;
            q.w_msg_out = [20, 1, 0];
            q.max_work = 6;
            PropDef {
                id: "C18",
                profiles: vec![p, q],
                monitor: m::c01,
                labels: m2::c18_labels,
                nontrivial: &["ask_and_timeout_and_nontrivial_end"],
                rule: "differential across builds: the same generated scenarios (union of the C01-C10 profiles plus peer asks in arbitrary topologies) are executed by harness builds with different rsactor feature sets and by a default-feature reference process; canonical traces (client results with virtual return times, per-actor hook sequences with times, handling order, final ActorResults with the state they carry; process-global ids replaced by scenario indices; log output excluded) must be identical; cases whose default-feature run contains a logical ask cycle are excluded and counted; distinct by scenario hash; non-trivial iff the case contains >=1 ask, >=1 timeout operation and a termination other than an uncontended graceful stop",
                quick_cases: 6000,
                thorough_cases: 100000,
                tape_len: 600,
                log_polls: false,
                mode: Mode::DiffRef,
            }
        }
        "C20" => {
            let mut p = Profile::base("C20");
            p.p_spin_long = (1, 600);
            p.clients = (1, 4);
            p.ops = (2, 10);
            p.spin_us = 1500;
            p.w_metrics = 5;
            p.w_downgrade = 2;
            p.w_clone = 2;
            p.w_kill = 1;
            p.w_stop = 1;
            p.w_msg_out = [14, 1, 1];
            p.w_how = [10, 2, 6, 2, 1];
            p.max_work = 4;
            p.caps = vec![2, 4, 8, 32];
            p.w_run_out = [2, 2, 1, 0];
            PropDef {
                id: "C20",
                profiles: vec![p],
                monitor: m2::c20,
                labels: m2::c20_labels,
                nontrivial: &["3_messages_2_durations", "read_after_end"],
                rule: "message sequences whose handlers really spend a generated 0-1500 us (thread::sleep, measured inside the handler), every termination cause, metrics read through strong, cloned and weak-upgraded handles during and after the run; distinct by scenario hash; non-trivial iff an actor handled >=3 messages with >=2 distinct measured durations, or metrics were read after the actor had ended",
                quick_cases: 1200,
                thorough_cases: 20000,
                tape_len: 500,
                log_polls: false,
                mode: Mode::Single,
            }
        }
        "C19" => {
            let mut p = Profile::base("C19-runtime");
            p.w_how = [10, 3, 8, 3, 1];
            p.w_msg_out = [10, 6, 1];
            p.peer = Peer::Dag;
            p.actors = (1, 3);
            p.p_peer = (1, 4);
            p.w_kill = 1;
            PropDef {
                id: "C19",
                profiles: vec![p],
                monitor: m2::c19_runtime,
                labels: m2::c19_labels,
                nontrivial: &["handled_tell_and_ask"],
                rule: "two parts. (1) generated programs: actor shape (named/tuple/unit struct, enum) x generics (none, inline bounds, where clause, two parameters) x derive(Actor)/manual x 1-4 handlers, each = attribute {#[handler], #[handler()], (result), (no_log)} x return spelling {none, (), u32, String, tuple, Option, Vec, generic T, Result, std::result::Result, anyhow::Result, alias of Result} x message kind (named, tuple, generic wrapper, destructuring pattern, unit) x third-parameter spelling x co-existing non-handler methods, compiled offline against the real macros together with 11 kinds of negative programs; distinct by descriptor hash; a program is non-trivial iff it has >=2 handlers of different (attribute, return-spelling) classes. (2) runtime half in the simulator: manual Message impls recording every on_tell_result call; non-trivial iff both a tell and an ask were handled",
                quick_cases: 10000,
                thorough_cases: 30000,
                tape_len: 500,
                log_polls: false,
                mode: Mode::Single,
            }
        }
        "C17" => {
            let mut p = Profile::base("C17");
            p.actors = (1, 2);
            p.clients = (1, 6);
            p.ops = (1, 6);
            p.w_mode = [2, 4, 3];
            p.w_block = [2, 4, 4];
            p.p_dep = (1, 4);
            p.p_task_block = (1, 4);
            p.w_how = [8, 2, 8, 2, 0];
            p.timeouts = vec![1, 2, 5, 10, 30, 2000, crate::scenario::MS_MAX];
            p.caps = vec![1, 1, 2, 3, 8, 32];
            p.max_delay = 4;
            p.p_delay = (1, 4);
            p.max_yields = 1;
            p.max_work = 6;
            p.p_work = (1, 2);
            p.start_sleep = 30;
            p.p_start_sleep = (1, 2);
            p.stop_sleep = 4;
            p.runs = (0, 1);
            p.run_sleep = 4;
            p.w_stop = 2;
            p.w_kill = 1;
            p.w_msg_out = [20, 2, 1];
            p.w_convert = 2;
            p.w_routing = [3, 1, 0];
            p.w_upgrade = 1;
            p.w_probe = 0;
            p.w_probeweak = 0;
            let mut q = p.clone();
            q.name = "C17-gated";
            q.start_sleep = 60;
            q.p_start_sleep = (1, 1);
            q.caps = vec![1, 1, 2];
            q.timeouts = vec![1, 2, 5, 10, 20];
            q.w_block = [1, 2, 6];
            PropDef {
                id: "C17",
                profiles: vec![p, q],
                monitor: m3::c17,
                labels: m3::c17_labels,
                nontrivial: &["two_blocking_callers_overlap", "blocking_timeout_expired", "blocking_with_timeout_waited"],
                rule: "1-6 clients running as OS threads, spawn_blocking closures or tokio tasks on a multi_thread runtime, issuing blocking_tell/blocking_ask with and without timeout, the deprecated aliases (with a timeout argument that must be ignored) and async calls, against live / slow / gated / full / stopped / dying actors; timeout variants are also called from inside async tasks; oracles restricted to relations that are sound under arbitrary interleaving (logical stamps, multisets, one-sided wall-clock bounds); distinct by scenario hash; non-trivial iff >=2 blocking callers overlapped or a blocking call with a timeout waited or expired",
                quick_cases: 60,
                thorough_cases: 1500,
                tape_len: 400,
                log_polls: false,
                mode: Mode::RealThreads,
            }
        }
        _ => return None,
    };
    if thorough {
        for p in d.profiles.iter_mut() {
            thorough_scale(p);
        }
        d.tape_len += 300;
    }
    let _ = no_labels;
    Some(d)
}
