//! Profile-driven scenario generator. `gen(profile, choices) -> Scenario`.
//!
//! A profile only biases the generator towards the region where its property can fail; it never
//! produces inputs the API does not accept.

use crate::choices::Choices;
use crate::scenario::*;

#[derive(Clone, Copy, PartialEq, Debug)]
pub enum Peer {
    None,
    /// peers may only be addressed in increasing index order (no cycles, no deadlocks)
    Dag,
    /// any actor, including self (ask cycles possible)
    Any,
    /// any other actor (longer cycles more likely)
    Others,
}

#[derive(Clone, Debug)]
pub struct Profile {
    pub name: &'static str,
    pub actors: (u32, u32),
    pub clients: (u32, u32),
    pub ops: (u32, u32),
    pub caps: Vec<u32>,
    // op weights
    pub w_send: u32,
    pub w_stop: u32,
    /// stop() abandoned by the caller after a timeout
    pub w_stopt: u32,
    pub w_kill: u32,
    pub w_clone: u32,
    pub w_drop: u32,
    pub w_downgrade: u32,
    pub w_upgrade: u32,
    pub w_dropweak: u32,
    pub w_cloneweak: u32,
    pub w_convert: u32,
    pub w_probe: u32,
    pub w_probeweak: u32,
    pub w_metrics: u32,
    /// Tell, TellT, Ask, AskT, AskJoin
    pub w_how: [u32; 5],
    pub timeouts: Vec<Ms>,
    pub max_delay: Ms,
    pub p_delay: (u32, u32),
    pub max_yields: u32,
    pub max_work: Ms,
    pub p_work: (u32, u32),
    /// Ok, Err(flag in the reply), Panic
    pub w_msg_out: [u32; 3],
    pub w_start_out: [u32; 3],
    pub w_stop_out: [u32; 3],
    /// Ok(true), Ok(false), Err, Panic
    pub w_run_out: [u32; 4],
    pub start_sleep: Ms,
    pub p_start_sleep: (u32, u32),
    pub stop_sleep: Ms,
    pub p_stop_sleep: (u32, u32),
    pub runs: (u32, u32),
    pub run_sleep: Ms,
    /// Done, Pend
    pub w_tail: [u32; 2],
    pub peer: Peer,
    pub p_peer: (u32, u32),
    pub p_hook_peer: (u32, u32),
    pub p_keep: (u32, u32),
    pub p_kill_self: (u32, u32),
    /// Mixed, Direct, Erased
    pub w_routing: [u32; 3],
    pub sampler: bool,
    pub init_all: bool,
    /// A, B
    pub w_ty: [u32; 2],
    pub spin_us: u32,
    /// chance that a client ends by dropping every handle it holds
    pub p_end_drop: (u32, u32),
    /// Ok, Panic, Abort
    pub w_job_out: [u32; 3],
    pub job_dur: Ms,
    /// API used by sends issued from hooks: Tell, TellT, Ask, AskT
    pub w_peer_how: [u32; 4],
    pub peer_depth: u32,
    pub late_spawn: bool,
    /// real-thread engine: Task, Thread, Pool
    pub w_mode: [u32; 3],
    /// thread/pool clients: async call, blocking without timeout, blocking with timeout
    pub w_block: [u32; 3],
    /// chance that a blocking call uses the deprecated alias
    pub p_dep: (u32, u32),
    /// chance that a task client uses a blocking-with-timeout call
    pub p_task_block: (u32, u32),
    /// maximum number of sequential peer sends inside one hook / handler
    pub max_peer_sends: u32,
    /// chance that a plain tell / ask is wrapped in a caller-side timeout (cancellation)
    pub p_cancel: (u32, u32),
    /// chance that an ask_with_timeout is issued by a busy caller (polled late)
    pub p_late: (u32, u32),
    /// chance that a hook issues two or three of its sends concurrently (join_all)
    pub p_par: (u32, u32),
    /// chance that a plain tell / ask future is created, left un-polled while the caller yields,
    /// and then polled or dropped
    pub p_lazy: (u32, u32),
    /// chance that a real spin lasts more than a second (metrics arithmetic beyond sub-second values)
    pub p_spin_long: (u32, u32),
}

impl Profile {
    pub fn base(name: &'static str) -> Profile {
        Profile {
            name,
            actors: (1, 2),
            clients: (1, 4),
            ops: (1, 8),
            caps: vec![8, 1, 2, 3, 4, 32, 0],
            w_send: 20,
            w_stop: 2,
            w_stopt: 0,
            w_kill: 0,
            w_clone: 2,
            w_drop: 3,
            w_downgrade: 1,
            w_upgrade: 1,
            w_dropweak: 1,
            w_cloneweak: 0,
            w_convert: 1,
            w_probe: 1,
            w_probeweak: 1,
            w_metrics: 0,
            w_how: [10, 4, 6, 4, 0],
            timeouts: vec![0, 2, 4, 6, 10, 20, 40],
            max_delay: 12,
            p_delay: (1, 3),
            max_yields: 2,
            max_work: 8,
            p_work: (1, 2),
            w_msg_out: [20, 2, 0],
            w_start_out: [1, 0, 0],
            w_stop_out: [1, 0, 0],
            w_run_out: [2, 2, 0, 0],
            start_sleep: 10,
            p_start_sleep: (1, 3),
            stop_sleep: 6,
            p_stop_sleep: (1, 4),
            runs: (0, 2),
            run_sleep: 8,
            w_tail: [3, 1],
            peer: Peer::None,
            p_peer: (0, 1),
            p_hook_peer: (0, 1),
            p_keep: (0, 1),
            p_kill_self: (0, 1),
            w_routing: [4, 1, 1],
            sampler: false,
            init_all: true,
            w_ty: [3, 2],
            spin_us: 0,
            p_end_drop: (1, 2),
            w_job_out: [3, 1, 1],
            job_dur: 6,
            w_peer_how: [10, 4, 6, 4],
            peer_depth: 2,
            late_spawn: false,
            w_mode: [1, 0, 0],
            w_block: [1, 0, 0],
            p_dep: (0, 1),
            p_task_block: (0, 1),
            max_peer_sends: 1,
            p_cancel: (0, 1),
            p_late: (0, 1),
            p_par: (0, 1),
            p_lazy: (0, 1),
            p_spin_long: (0, 1),
        }
    }
}

pub struct Gen<'a> {
    pub p: &'a Profile,
    pub ch: &'a mut dyn Choices,
    pub next_id: u32,
    pub n_actors: usize,
}

fn even(ch: &mut dyn Choices, max: Ms) -> Ms {
    ch.range(0, max / 2) * 2
}

impl<'a> Gen<'a> {
    pub fn msg_id(&mut self) -> u32 {
        self.next_id += 1;
        self.next_id
    }

    fn how(&mut self, allow_join: bool) -> How {
        let mut w = self.p.w_how;
        if !allow_join {
            w[4] = 0;
        }
        let h = match self.ch.weighted(&w) {
            0 => How::Tell,
            1 => How::TellT(self.timeout()),
            2 => How::Ask,
            3 => How::AskT(self.timeout()),
            _ => How::AskJoin,
        };
        let h = self.maybe_late(h);
        let h = self.maybe_lazy(h);
        self.maybe_cancel(h)
    }

    fn maybe_cancel(&mut self, h: How) -> How {
        if self.p.p_cancel.0 == 0 {
            return h;
        }
        match h {
            How::Tell if self.ch.chance(self.p.p_cancel.0, self.p.p_cancel.1) => How::TellC(self.timeout()),
            How::Ask if self.ch.chance(self.p.p_cancel.0, self.p.p_cancel.1) => How::AskC(self.timeout()),
            other => other,
        }
    }

    fn maybe_lazy(&mut self, h: How) -> How {
        if self.p.p_lazy.0 == 0 {
            return h;
        }
        match h {
            How::Tell if self.ch.chance(self.p.p_lazy.0, self.p.p_lazy.1) => How::TellL { yields: self.ch.range(0, 3) as u8, drop: self.ch.chance(1, 3) },
            How::Ask if self.ch.chance(self.p.p_lazy.0, self.p.p_lazy.1) => How::AskL { yields: self.ch.range(0, 3) as u8, drop: self.ch.chance(1, 3) },
            other => other,
        }
    }

    fn maybe_late(&mut self, h: How) -> How {
        if self.p.p_late.0 == 0 {
            return h;
        }
        match h {
            How::AskT(t) if self.ch.chance(self.p.p_late.0, self.p.p_late.1) => How::AskTL(t, even(self.ch, 24)),
            other => other,
        }
    }

    /// API for a client operation, depending on where the client runs
    fn client_how(&mut self, mode: ClientMode, allow_join: bool) -> How {
        let base = self.how(allow_join);
        let blockify = |h: How, t: Option<Ms>, dep: bool| -> How {
            match (h.is_tell(), dep) {
                (true, false) => How::BTell(t),
                (true, true) => How::DepTell(t),
                (false, false) => How::BAsk(t),
                (false, true) => How::DepAsk(t),
            }
        };
        match mode {
            ClientMode::Task => {
                if base != How::AskJoin && base.cancel_after().is_none() && base.late().is_none() && !matches!(base, How::TellL { .. } | How::AskL { .. }) && self.ch.chance(self.p.p_task_block.0, self.p.p_task_block.1) {
                    // a blocking call made from inside an async task parks a runtime worker until it
                    // returns; with an unbounded timeout that can starve the very actor it waits
                    // for (a hazard of the caller's making, not of the library), so task clients
                    // only use bounded timeouts
                    let mut t = self.timeout();
                    if t == MS_MAX {
                        t = 2000;
                    }
                    blockify(base, Some(t), false)
                } else {
                    base
                }
            }
            _ => {
                if base == How::AskJoin || base.cancel_after().is_some() || base.late().is_some() || matches!(base, How::TellL { .. } | How::AskL { .. }) {
                    return base;
                }
                match self.ch.weighted(&self.p.w_block) {
                    0 => base,
                    1 => {
                        let dep = self.ch.chance(self.p.p_dep.0, self.p.p_dep.1);
                        // the deprecated aliases ignore whatever timeout they are given
                        let t = if dep && self.ch.chance(1, 2) { Some(self.timeout()) } else { None };
                        blockify(base, t, dep)
                    }
                    _ => {
                        let t = self.timeout();
                        blockify(base, Some(t), false)
                    }
                }
            }
        }
    }

    fn peer_how(&mut self) -> How {
        let h = match self.ch.weighted(&self.p.w_peer_how) {
            0 => How::Tell,
            1 => How::TellT(self.timeout()),
            2 => How::Ask,
            _ => How::AskT(self.timeout()),
        };
        self.maybe_cancel(h)
    }

    fn timeout(&mut self) -> Ms {
        let i = self.ch.below(self.p.timeouts.len().max(1) as u32) as usize;
        self.p.timeouts.get(i).copied().unwrap_or(10)
    }

    /// steps inside a hook or handler of actor `owner`
    fn steps(&mut self, owner: usize, depth: u32, max_sleep: Ms, p_sleep: (u32, u32), p_peer: (u32, u32)) -> Vec<Step> {
        let mut v = vec![];
        if self.ch.chance(p_sleep.0, p_sleep.1) {
            let d = even(self.ch, max_sleep);
            if d > 0 {
                v.push(Step::Sleep(d));
            }
        }
        if self.p.max_yields > 0 && self.ch.chance(1, 4) {
            let n = self.ch.range(1, self.p.max_yields) as u8;
            v.push(Step::Yield(n));
        }
        if self.p.spin_us > 0 && self.ch.chance(2, 3) {
            let mut us = self.ch.range(0, self.p.spin_us);
            if self.ch.chance(self.p.p_spin_long.0, self.p.p_spin_long.1) {
                us += 1_000_000;
            }
            v.push(Step::Spin(us));
        }
        for round in 0..self.p.max_peer_sends {
            // further sequential sends become less likely
            if round > 0 && !self.ch.chance(1, 2) {
                break;
            }
            if self.p.peer != Peer::None && depth < self.p.peer_depth && self.ch.chance(p_peer.0, p_peer.1) {
                let tgt = match self.p.peer {
                    Peer::Dag => {
                        if owner + 1 < self.n_actors {
                            Some(self.ch.range(owner as u32 + 1, self.n_actors as u32 - 1) as usize)
                        } else {
                            None
                        }
                    }
                    Peer::Any => Some(self.ch.below(self.n_actors as u32) as usize),
                    Peer::Others => {
                        if self.n_actors < 2 {
                            Some(owner)
                        } else {
                            let k = self.ch.below(self.n_actors as u32 - 1) as usize;
                            Some(if k >= owner { k + 1 } else { k })
                        }
                    }
                    Peer::None => None,
                };
                if let Some(to) = tgt {
                    let how = self.peer_how();
                    let msg = self.msg(to, depth + 1, false);
                    let erased = self.ch.chance(1, 4);
                    v.push(Step::Send { to, how, msg: Box::new(msg), erased });
                    if self.ch.chance(1, 3) {
                        let d = even(self.ch, max_sleep);
                        if d > 0 {
                            v.push(Step::Sleep(d));
                        }
                    }
                }
            }
        }
        // optionally issue the sends of this hook concurrently instead of one after the other
        if self.p.p_par.0 > 0 {
            let sends: Vec<usize> = v.iter().enumerate().filter(|(_, s)| matches!(s, Step::Send { .. })).map(|(i, _)| i).collect();
            if sends.len() >= 2 && self.ch.chance(self.p.p_par.0, self.p.p_par.1) {
                let mut par = vec![];
                let mut rest = vec![];
                for s in v.drain(..) {
                    if matches!(s, Step::Send { .. }) {
                        par.push(s);
                    } else {
                        rest.push(s);
                    }
                }
                v = rest;
                v.push(Step::Par(par));
            }
        }
        if self.ch.chance(self.p.p_keep.0, self.p.p_keep.1) {
            v.push(Step::Keep);
        }
        if self.ch.chance(self.p.p_kill_self.0, self.p.p_kill_self.1) {
            v.push(Step::KillSelf);
        }
        v
    }

    /// a message to be handled by actor `to`
    pub fn msg(&mut self, to: usize, depth: u32, job: bool) -> Msg {
        let id = self.msg_id();
        let steps = self.steps(to, depth, self.p.max_work, self.p.p_work, self.p.p_peer);
        let out = match self.ch.weighted(&self.p.w_msg_out) {
            0 => Out::Ok,
            1 => Out::Err,
            _ => Out::Panic,
        };
        if job {
            let jo = match self.ch.weighted(&self.p.w_job_out) {
                0 => JobOut::Ok,
                1 => JobOut::Panic,
                _ => JobOut::Abort,
            };
            let dur = even(self.ch, self.p.job_dur);
            Msg { id, ty: Ty::Job, steps, out: if out == Out::Err { Out::Ok } else { out }, job: Some(Job { dur, out: jo }) }
        } else {
            let ty = if self.ch.weighted(&self.p.w_ty) == 0 { Ty::A } else { Ty::B };
            Msg { id, ty, steps, out, job: None }
        }
    }

    fn hook(&mut self, owner: usize, max_sleep: Ms, p_sleep: (u32, u32), w_out: &[u32; 3]) -> Hook {
        let steps = self.steps(owner, 0, max_sleep, p_sleep, self.p.p_hook_peer);
        let out = match self.ch.weighted(w_out) {
            0 => Out::Ok,
            1 => Out::Err,
            _ => Out::Panic,
        };
        Hook { steps, out }
    }

    pub fn actor(&mut self, idx: usize) -> ActorSpec {
        let cap = {
            let i = self.ch.below(self.p.caps.len() as u32) as usize;
            self.p.caps[i]
        };
        let start = self.hook(idx, self.p.start_sleep, self.p.p_start_sleep, &self.p.w_start_out);
        let nruns = self.ch.range(self.p.runs.0, self.p.runs.1);
        let mut runs = vec![];
        for _ in 0..nruns {
            let steps = self.steps(idx, 0, self.p.run_sleep, (2, 3), self.p.p_hook_peer);
            let out = match self.ch.weighted(&self.p.w_run_out) {
                0 => Out::Ok,
                1 => Out::False,
                2 => Out::Err,
                _ => Out::Panic,
            };
            runs.push(Hook { steps, out });
        }
        let run_tail = if self.ch.weighted(&self.p.w_tail) == 0 { Tail::Done } else { Tail::Pend };
        let stop = self.hook(idx, self.p.stop_sleep, self.p.p_stop_sleep, &self.p.w_stop_out);
        ActorSpec { cap, start, runs, run_tail, stop }
    }

    pub fn client(&mut self, _c: usize) -> ClientSpec {
        let n = self.n_actors;
        let mode = match self.ch.weighted(&self.p.w_mode) {
            0 => ClientMode::Task,
            1 => ClientMode::Thread,
            _ => ClientMode::Pool,
        };
        let mut init: Vec<usize> = vec![];
        if self.p.init_all {
            init.extend(0..n);
        } else {
            for a in 0..n {
                if self.ch.chance(2, 3) {
                    init.push(a);
                }
            }
            if init.is_empty() {
                init.push(self.ch.below(n as u32) as usize);
            }
        }
        // generator-side model of the slot tables
        let mut strong: Vec<(usize, bool)> = init.iter().map(|a| (*a, true)).collect(); // (actor, maybe live)
        let mut weak: Vec<(usize, bool)> = vec![];
        let nops = self.ch.range(self.p.ops.0, self.p.ops.1);
        let mut ops = vec![];
        for _ in 0..nops {
            let delay = if self.ch.chance(self.p.p_delay.0, self.p.p_delay.1) { even(self.ch, self.p.max_delay) } else { 0 };
            let yields = if self.p.max_yields > 0 && self.ch.chance(1, 4) { self.ch.range(1, self.p.max_yields) as u8 } else { 0 };
            let w = [
                self.p.w_send,
                self.p.w_stop,
                self.p.w_kill,
                self.p.w_clone,
                self.p.w_drop,
                self.p.w_downgrade,
                if weak.is_empty() { 0 } else { self.p.w_upgrade },
                if weak.is_empty() { 0 } else { self.p.w_dropweak },
                if weak.is_empty() { 0 } else { self.p.w_cloneweak },
                self.p.w_convert,
                self.p.w_probe,
                if weak.is_empty() { 0 } else { self.p.w_probeweak },
                self.p.w_metrics,
                self.p.w_stopt,
            ];
            let kind = self.ch.weighted(&w);
            // prefer live slots
            let live: Vec<usize> = strong.iter().enumerate().filter(|(_, s)| s.1).map(|(i, _)| i).collect();
            let h = if live.is_empty() || self.ch.chance(1, 20) {
                self.ch.below(strong.len().max(1) as u32) as usize
            } else {
                live[self.ch.below(live.len() as u32) as usize]
            };
            let wl: Vec<usize> = weak.iter().enumerate().filter(|(_, s)| s.1).map(|(i, _)| i).collect();
            let wi = if wl.is_empty() { 0 } else { wl[self.ch.below(wl.len() as u32) as usize] };
            let target = strong.get(h).map(|s| s.0).unwrap_or(0);
            let op = match kind {
                0 => {
                    let how = self.client_how(mode, true);
                    let msg = self.msg(target, 0, how == How::AskJoin);
                    Op::Send { h, how, msg }
                }
                1 => Op::Stop { h },
                2 => Op::Kill { h },
                3 => {
                    let src = strong.get(h).copied().unwrap_or((0, false));
                    strong.push(src);
                    Op::Clone { h }
                }
                4 => {
                    if let Some(s) = strong.get_mut(h) {
                        s.1 = false;
                    }
                    Op::Drop { h }
                }
                5 => {
                    let src = strong.get(h).copied().unwrap_or((0, false));
                    weak.push(src);
                    Op::Downgrade { h }
                }
                6 => {
                    let src = weak.get(wi).copied().unwrap_or((0, false));
                    strong.push(src);
                    Op::Upgrade { w: wi }
                }
                7 => {
                    if let Some(s) = weak.get_mut(wi) {
                        s.1 = false;
                    }
                    Op::DropWeak { w: wi }
                }
                8 => {
                    let src = weak.get(wi).copied().unwrap_or((0, false));
                    weak.push(src);
                    Op::CloneWeak { w: wi }
                }
                9 => Op::Convert { h, erased: true, by_ref: self.ch.chance(1, 2) },
                10 => Op::Probe { h },
                11 => Op::ProbeWeak { w: wi },
                13 => Op::StopT { h, t: self.timeout() },
                _ => {
                    if !weak.is_empty() && self.ch.chance(1, 3) {
                        Op::MetricsWeak { w: wi }
                    } else {
                        Op::Metrics { h }
                    }
                }
            };
            ops.push(ClientOp { delay, yields, op });
        }
        if self.ch.chance(self.p.p_end_drop.0, self.p.p_end_drop.1) {
            let immediate = self.ch.chance(1, 2);
            for (i, s) in strong.iter().enumerate() {
                if s.1 {
                    let delay = if immediate { 0 } else { even(self.ch, self.p.max_delay) };
                    ops.push(ClientOp { delay, yields: 0, op: Op::Drop { h: i } });
                }
            }
        }
        ClientSpec { init, ops, mode }
    }

    pub fn scenario(&mut self) -> Scenario {
        let n = self.ch.range(self.p.actors.0, self.p.actors.1) as usize;
        self.n_actors = n;
        let routing = match self.ch.weighted(&self.p.w_routing) {
            0 => Routing::Mixed,
            1 => Routing::Direct,
            _ => Routing::Erased(self.ch.below(1 << 16)),
        };
        let actors = (0..n).map(|i| self.actor(i)).collect();
        let nc = self.ch.range(self.p.clients.0, self.p.clients.1) as usize;
        let clients = (0..nc).map(|c| self.client(c)).collect();
        Scenario { actors, clients, routing, sampler: self.p.sampler, late_spawn: self.p.late_spawn, note: self.p.name.to_string() }
    }
}

pub fn gen(p: &Profile, ch: &mut dyn Choices) -> Scenario {
    let mut g = Gen { p, ch, next_id: 0, n_actors: 1 };
    g.scenario()
}
