//! The scripted actor used by both engines. Everything it does is dictated by the scenario and
//! every hook entry / exit is recorded in the trace.

use crate::scenario::*;
use crate::trace::*;
use futures::FutureExt;
use rsactor::{Actor, ActorRef, ActorWeak, Message};
use std::future::Future;
use std::panic::AssertUnwindSafe;
use std::pin::Pin;
use std::sync::{Arc, Mutex};
use std::task::{Context, Poll};
use std::time::Duration;

pub const PANIC_MARK: &str = "SIMPANIC";

pub struct World {
    pub rec: Arc<Recorder>,
    pub specs: Vec<ActorSpec>,
    pub peers: Mutex<Vec<Option<ActorWeak<SimActor>>>>,
    /// microseconds of (virtual or real) time per scenario millisecond
    pub us_per_ms: u64,
}

impl World {
    pub fn dur(&self, ms: Ms) -> Duration {
        if ms == MS_MAX {
            return Duration::MAX;
        }
        Duration::from_micros(ms as u64 * self.us_per_ms)
    }
    pub fn peer(&self, i: usize) -> Option<ActorRef<SimActor>> {
        let g = self.peers.lock().unwrap_or_else(|e| e.into_inner());
        g.get(i).and_then(|w| w.as_ref()).and_then(|w| w.upgrade())
    }
}

/// A strong reference whose creation and destruction are visible in the trace
/// (the harness-side model of "how many strong references exist").
pub struct Tracked<T> {
    pub inner: T,
    pub a: usize,
    rec: Arc<Recorder>,
}

impl<T> Tracked<T> {
    pub fn new(inner: T, a: usize, rec: &Arc<Recorder>) -> Self {
        rec.rec(K::Strong { a, n: 1 });
        Tracked { inner, a, rec: rec.clone() }
    }
}

impl<T> Drop for Tracked<T> {
    fn drop(&mut self) {
        self.rec.rec(K::Strong { a: self.a, n: -1 });
    }
}

impl<T> std::ops::Deref for Tracked<T> {
    type Target = T;
    fn deref(&self) -> &T {
        &self.inner
    }
}

#[derive(Debug, Clone, PartialEq)]
pub struct SimErr {
    pub hook: &'static str,
    pub a: usize,
    pub tag: u64,
}

pub struct SimActor {
    /// identity reported by the reference handed to on_start; every later hook must see the same
    pub ident: rsactor::Identity,
    pub idx: usize,
    pub world: Arc<World>,
    pub st: ActorState,
    pub kept: Vec<Tracked<ActorRef<SimActor>>>,
}

pub struct MsgA(pub Msg);
pub struct MsgB(pub Msg);
pub struct JobMsg(pub Msg);

#[derive(Debug, Clone, PartialEq)]
pub struct Rep {
    pub id: u32,
    pub nonce: u64,
    pub err: bool,
    pub a: usize,
}

pub fn job_value(mid: u32) -> u64 {
    mid as u64 * 1000 + 7
}

enum Me<'a> {
    Strong(&'a ActorRef<SimActor>),
    Weak(&'a ActorWeak<SimActor>),
}

pub fn map_err(e: &rsactor::Error, target: rsactor::Identity) -> Res {
    use rsactor::Error as E;
    // C10: is_retryable is true exactly for Timeout, on every error value ever seen
    let is_timeout = matches!(e, E::Timeout { .. });
    if e.is_retryable() != is_timeout {
        with_current(|r| {
            r.rec(K::Anomaly { prop: "C10", what: format!("is_retryable()={} on {e:?}", e.is_retryable()) });
        });
    }
    let ident = match e {
        E::Send { identity, .. }
        | E::Receive { identity, .. }
        | E::Timeout { identity, .. }
        | E::Downcast { identity, .. }
        | E::Runtime { identity, .. }
        | E::Join { identity, .. } => Some(*identity),
        _ => None,
    };
    if let Some(i) = ident {
        if i != target {
            with_current(|r| {
                r.rec(K::Anomaly { prop: "C11", what: format!("error names {i} but the target is {target}") });
            });
        }
    }
    let _ = format!("{e}"); // Display must not panic
    match e {
        E::Send { .. } => Res::ErrSend,
        E::Receive { .. } => Res::ErrRecv,
        E::Timeout { .. } => Res::ErrTimeout,
        E::Join { source, .. } => {
            if source.is_panic() {
                Res::ErrJoinPanic
            } else {
                Res::ErrJoinCancelled
            }
        }
        other => Res::ErrOther(format!("{other}")),
    }
}

fn unit(r: rsactor::Result<()>, id: rsactor::Identity) -> Res {
    match r {
        Ok(()) => Res::Ok,
        Err(e) => map_err(&e, id),
    }
}
fn rep(r: rsactor::Result<Rep>, id: rsactor::Identity) -> Res {
    match r {
        Ok(rep) => Res::Rep { id: rep.id, nonce: rep.nonce, err: rep.err },
        Err(e) => map_err(&e, id),
    }
}

/// create the call's future now, let other tasks run, then poll it for the first time (or drop it
/// unpolled): futures are lazy, so nothing may happen before the first poll
macro_rules! lazy_call {
    ($fut:expr, $yields:expr, $drop:expr, $map:expr) => {{
        let fut = $fut;
        for _ in 0..$yields {
            tokio::task::yield_now().await;
        }
        if $drop {
            drop(fut);
            Res::Abandoned
        } else {
            $map(fut.await)
        }
    }};
}
pub(crate) use lazy_call;

/// Perform one message operation through a plain ActorRef (async variants only).
pub async fn send_direct(r: &ActorRef<SimActor>, how: How, msg: Msg, world: &World) -> Res {
    let id = r.identity();
    match (how, msg.ty) {
        (How::Tell, Ty::A) => unit(r.tell(MsgA(msg)).await, id),
        (How::Tell, Ty::B) => unit(r.tell(MsgB(msg)).await, id),
        (How::Tell, Ty::Job) => unit(r.tell(JobMsg(msg)).await, id),
        (How::TellT(t), Ty::A) => unit(r.tell_with_timeout(MsgA(msg), world.dur(t)).await, id),
        (How::TellT(t), Ty::B) => unit(r.tell_with_timeout(MsgB(msg), world.dur(t)).await, id),
        (How::TellT(t), Ty::Job) => unit(r.tell_with_timeout(JobMsg(msg), world.dur(t)).await, id),
        (How::Ask, Ty::A) => rep(r.ask(MsgA(msg)).await, id),
        (How::Ask, Ty::B) => rep(r.ask(MsgB(msg)).await, id),
        (How::Ask, Ty::Job) => match r.ask(JobMsg(msg)).await {
            Ok(_jh) => Res::Ok,
            Err(e) => map_err(&e, id),
        },
        (How::AskT(t), Ty::A) => rep(r.ask_with_timeout(MsgA(msg), world.dur(t)).await, id),
        (How::AskT(t), Ty::B) => rep(r.ask_with_timeout(MsgB(msg), world.dur(t)).await, id),
        (How::AskT(t), Ty::Job) => match r.ask_with_timeout(JobMsg(msg), world.dur(t)).await {
            Ok(_jh) => Res::Ok,
            Err(e) => map_err(&e, id),
        },
        (How::AskJoin, Ty::Job) => match r.ask_join(JobMsg(msg)).await {
            Ok(v) => Res::Job(v),
            Err(e) => map_err(&e, id),
        },
        (How::AskJoin, Ty::A) => rep(r.ask(MsgA(msg)).await, id),
        (How::AskJoin, Ty::B) => rep(r.ask(MsgB(msg)).await, id),
        (How::TellL { yields, drop }, Ty::A) => lazy_call!(r.tell(MsgA(msg)), yields, drop, |x| unit(x, id)),
        (How::TellL { yields, drop }, Ty::B) => lazy_call!(r.tell(MsgB(msg)), yields, drop, |x| unit(x, id)),
        (How::TellL { yields, drop }, Ty::Job) => lazy_call!(r.tell(JobMsg(msg)), yields, drop, |x| unit(x, id)),
        (How::AskL { yields, drop }, Ty::A) => lazy_call!(r.ask(MsgA(msg)), yields, drop, |x| rep(x, id)),
        (How::AskL { yields, drop }, Ty::B) => lazy_call!(r.ask(MsgB(msg)), yields, drop, |x| rep(x, id)),
        (How::AskL { yields, drop }, Ty::Job) => lazy_call!(r.ask(JobMsg(msg)), yields, drop, |x: rsactor::Result<tokio::task::JoinHandle<u64>>| match x {
            Ok(_) => Res::Ok,
            Err(e) => map_err(&e, id),
        }),
        (How::AskTL(t, late), ty) => {
            // a busy caller: first poll, then nothing for `late`, then await
            let mut fut: Pin<Box<dyn Future<Output = Res> + Send + '_>> = match ty {
                Ty::A => Box::pin(async move { rep(r.ask_with_timeout(MsgA(msg), world.dur(t)).await, id) }),
                Ty::B => Box::pin(async move { rep(r.ask_with_timeout(MsgB(msg), world.dur(t)).await, id) }),
                Ty::Job => Box::pin(async move {
                    match r.ask_with_timeout(JobMsg(msg), world.dur(t)).await {
                        Ok(_jh) => Res::Ok,
                        Err(e) => map_err(&e, id),
                    }
                }),
            };
            match futures::poll!(fut.as_mut()) {
                Poll::Ready(res) => res,
                Poll::Pending => {
                    if late > 0 {
                        tokio::time::sleep(world.dur(late)).await;
                    }
                    fut.await
                }
            }
        }
        (How::TellC(t), Ty::A) => match tokio::time::timeout(world.dur(t), r.tell(MsgA(msg))).await {
            Ok(x) => unit(x, id),
            Err(_) => Res::Abandoned,
        },
        (How::TellC(t), Ty::B) => match tokio::time::timeout(world.dur(t), r.tell(MsgB(msg))).await {
            Ok(x) => unit(x, id),
            Err(_) => Res::Abandoned,
        },
        (How::TellC(t), Ty::Job) => match tokio::time::timeout(world.dur(t), r.tell(JobMsg(msg))).await {
            Ok(x) => unit(x, id),
            Err(_) => Res::Abandoned,
        },
        (How::AskC(t), Ty::A) => match tokio::time::timeout(world.dur(t), r.ask(MsgA(msg))).await {
            Ok(x) => rep(x, id),
            Err(_) => Res::Abandoned,
        },
        (How::AskC(t), Ty::B) => match tokio::time::timeout(world.dur(t), r.ask(MsgB(msg))).await {
            Ok(x) => rep(x, id),
            Err(_) => Res::Abandoned,
        },
        (How::AskC(t), Ty::Job) => match tokio::time::timeout(world.dur(t), r.ask(JobMsg(msg))).await {
            Ok(Ok(_jh)) => Res::Ok,
            Ok(Err(e)) => map_err(&e, id),
            Err(_) => Res::Abandoned,
        },
        (h, _) => send_blocking(r, h, msg, world),
    }
}

/// Blocking variants (must be called outside any async context unless a timeout is given).
#[allow(deprecated)]
pub fn send_blocking(r: &ActorRef<SimActor>, how: How, msg: Msg, world: &World) -> Res {
    let id = r.identity();
    let d = |t: Option<Ms>| t.map(|t| world.dur(t));
    match (how, msg.ty) {
        (How::BTell(t), Ty::A) => unit(r.blocking_tell(MsgA(msg), d(t)), id),
        (How::BTell(t), Ty::B) => unit(r.blocking_tell(MsgB(msg), d(t)), id),
        (How::BTell(t), Ty::Job) => unit(r.blocking_tell(JobMsg(msg), d(t)), id),
        (How::BAsk(t), Ty::A) => rep(r.blocking_ask(MsgA(msg), d(t)), id),
        (How::BAsk(t), Ty::B) => rep(r.blocking_ask(MsgB(msg), d(t)), id),
        (How::BAsk(t), Ty::Job) => match r.blocking_ask(JobMsg(msg), d(t)) {
            Ok(_) => Res::Ok,
            Err(e) => map_err(&e, id),
        },
        (How::DepTell(t), Ty::A) => unit(r.tell_blocking(MsgA(msg), d(t)), id),
        (How::DepTell(t), Ty::B) => unit(r.tell_blocking(MsgB(msg), d(t)), id),
        (How::DepTell(t), Ty::Job) => unit(r.tell_blocking(JobMsg(msg), d(t)), id),
        (How::DepAsk(t), Ty::A) => rep(r.ask_blocking(MsgA(msg), d(t)), id),
        (How::DepAsk(t), Ty::B) => rep(r.ask_blocking(MsgB(msg), d(t)), id),
        (How::DepAsk(t), Ty::Job) => match r.ask_blocking(JobMsg(msg), d(t)) {
            Ok(_) => Res::Ok,
            Err(e) => map_err(&e, id),
        },
        _ => Res::Skipped,
    }
}

/// One send from a hook of actor `owner` to a peer (shared by sequential and concurrent steps).
/// Returns the panic payload if the call panicked (the caller re-raises it).
async fn peer_send(world: &Arc<World>, owner: usize, hook: HookId, to: usize, how: How, msg: &Msg, erased: bool) -> Option<Box<dyn std::any::Any + Send>> {
    let op = world.rec.new_op();
    world.rec.rec(K::OpBegin { op, src: Src::Actor(owner), hook: Some(hook), a: to, kind: OpKind::Send { how, mid: msg.id, ty: msg.ty }, slot: 0, via: 0 });
    let peer = world.peer(to).map(|r| Tracked::new(r, to, &world.rec));
    let res = match &peer {
        None => Ok(Res::Skipped),
        Some(r) => {
            if erased {
                let b = crate::client::Strong::Erased(crate::client::Bundle::from_ref(&r.inner, msg.id % 2 == 0));
                AssertUnwindSafe(b.send(how, msg.clone(), (msg.id % 251) as u8, world)).catch_unwind().await
            } else {
                AssertUnwindSafe(send_direct(&r.inner, how, msg.clone(), world)).catch_unwind().await
            }
        }
    };
    drop(peer);
    match res {
        Ok(res) => {
            world.rec.rec(K::OpEnd { op, res });
            None
        }
        Err(p) => {
            world.rec.rec(K::OpEnd { op, res: Res::Panicked(panic_message(&*p)) });
            Some(p)
        }
    }
}

impl SimActor {
    fn rec(&self) -> &Recorder {
        &self.world.rec
    }

    async fn run_steps(&mut self, steps: &[Step], hook: HookId, me: &Me<'_>) {
        for (i, s) in steps.iter().enumerate() {
            self.run_step(s, hook, me).await;
            if let HookId::Run(inv) = hook {
                self.rec().rec(K::RunStep { a: self.idx, inv, step: i as u32 });
            }
        }
    }

    async fn run_step(&mut self, s: &Step, hook: HookId, me: &Me<'_>) {
        let world = self.world.clone();
        match s {
            Step::Sleep(ms) => {
                if *ms > 0 {
                    tokio::time::sleep(world.dur(*ms)).await
                }
            }
            Step::Yield(n) => {
                for _ in 0..*n {
                    tokio::task::yield_now().await
                }
            }
            Step::Spin(us) => std::thread::sleep(Duration::from_micros(*us as u64)),
            Step::Send { to, how, msg, erased } => {
                if let Some(p) = peer_send(&world, self.idx, hook, *to, *how, msg, *erased).await {
                    std::panic::resume_unwind(p);
                }
            }
            Step::Par(inner) => {
                // all sends are in flight at once; a panic of one unwinds while the others' futures
                // are still alive (they are dropped by the unwinding)
                let owner = self.idx;
                let futs: Vec<_> = inner
                    .iter()
                    .filter_map(|s| if let Step::Send { to, how, msg, erased } = s { Some((to, how, msg, erased)) } else { None })
                    .map(|(to, how, msg, erased)| {
                        let w = world.clone();
                        async move {
                            if let Some(p) = peer_send(&w, owner, hook, *to, *how, msg, *erased).await {
                                std::panic::resume_unwind(p);
                            }
                        }
                    })
                    .collect();
                futures::future::join_all(futs).await;
            }
            Step::KillSelf => {
                let op = world.rec.new_op();
                world.rec.rec(K::OpBegin {
                    op,
                    src: Src::Actor(self.idx),
                    hook: Some(hook),
                    a: self.idx,
                    kind: OpKind::Kill,
                    slot: 0,
                    via: 0,
                });
                let res = match me {
                    Me::Strong(r) => match r.kill() {
                        Ok(()) => Res::Ok,
                        Err(e) => map_err(&e, r.identity()),
                    },
                    Me::Weak(w) => match w.upgrade() {
                        Some(r) => match r.kill() {
                            Ok(()) => Res::Ok,
                            Err(e) => map_err(&e, r.identity()),
                        },
                        None => Res::Skipped,
                    },
                };
                world.rec.rec(K::OpEnd { op, res });
            }
            Step::KillPeer(to) => {
                let op = world.rec.new_op();
                world.rec.rec(K::OpBegin {
                    op,
                    src: Src::Actor(self.idx),
                    hook: Some(hook),
                    a: *to,
                    kind: OpKind::Kill,
                    slot: 0,
                    via: 0,
                });
                let res = match world.peer(*to) {
                    Some(r) => match r.kill() {
                        Ok(()) => Res::Ok,
                        Err(e) => map_err(&e, r.identity()),
                    },
                    None => Res::Skipped,
                };
                world.rec.rec(K::OpEnd { op, res });
            }
            Step::Keep => {
                let r = match me {
                    Me::Strong(r) => Some((*r).clone()),
                    Me::Weak(w) => w.upgrade(),
                };
                if let Some(r) = r {
                    self.kept.push(Tracked::new(r, self.idx, &world.rec));
                }
            }
            Step::Unkeep => {
                self.kept.clear();
            }
        }
    }

    fn check_ident(&self, seen: rsactor::Identity, hook: &str) {
        if seen != self.ident {
            self.rec().rec(K::Anomaly { prop: "C11", what: format!("actor {}: the reference passed to {hook} reports {seen}, on_start was given {}", self.idx, self.ident) });
        }
    }

    async fn handle_common(&mut self, msg: Msg, r: &ActorRef<SimActor>) -> Rep {
        let a = self.idx;
        self.check_ident(r.identity(), "a handler");
        self.rec().rec(K::HBegin { a, mid: msg.id, ty: msg.ty });
        self.st.handled.push(msg.id);
        let t0 = std::time::Instant::now();
        self.run_steps(&msg.steps, HookId::Handler(msg.id), &Me::Strong(r)).await;
        let inner_ns = t0.elapsed().as_nanos() as u64;
        if msg.out == Out::Panic {
            self.rec().rec(K::HEnd { a, mid: msg.id, nonce: 0, out: Out::Panic, inner_ns });
            panic!("{PANIC_MARK}:handler:{a}:{}", msg.id);
        }
        let out = msg.out;
        let mid = msg.id;
        let nonce = self.rec().rec_with(|seq| K::HEnd { a, mid, nonce: seq, out, inner_ns });
        Rep { id: mid, nonce, err: out == Out::Err, a }
    }
}

impl Drop for SimActor {
    fn drop(&mut self) {
        self.kept.clear();
    }
}

fn tell_result(rep: &Rep) {
    with_current(|r| {
        r.rec(K::TellResult { a: rep.a, mid: rep.id, err: rep.err });
    });
}

impl Message<MsgA> for SimActor {
    type Reply = Rep;
    async fn handle(&mut self, m: MsgA, r: &ActorRef<Self>) -> Rep {
        self.handle_common(m.0, r).await
    }
    fn on_tell_result(result: &Rep, _r: &ActorRef<Self>) {
        tell_result(result)
    }
}

impl Message<MsgB> for SimActor {
    type Reply = Rep;
    async fn handle(&mut self, m: MsgB, r: &ActorRef<Self>) -> Rep {
        self.handle_common(m.0, r).await
    }
    fn on_tell_result(result: &Rep, _r: &ActorRef<Self>) {
        tell_result(result)
    }
}

impl Message<JobMsg> for SimActor {
    type Reply = tokio::task::JoinHandle<u64>;
    async fn handle(&mut self, m: JobMsg, r: &ActorRef<Self>) -> Self::Reply {
        let msg = m.0;
        let job = msg.job.unwrap_or(Job { dur: 0, out: JobOut::Ok });
        let mid = msg.id;
        let world = self.world.clone();
        let _rep = self.handle_common(msg, r).await;
        let w2 = world.clone();
        let jh = tokio::spawn(async move {
            w2.rec.rec(K::JobBegin { mid });
            if job.dur > 0 {
                tokio::time::sleep(w2.dur(job.dur)).await;
            }
            w2.rec.rec(K::JobEnd { mid });
            if job.out == JobOut::Panic {
                panic!("{PANIC_MARK}:job:{mid}");
            }
            job_value(mid)
        });
        if job.out == JobOut::Abort {
            jh.abort();
        }
        jh
    }
}

/// Future wrapper that records every poll of an on_run future.
struct PollLog<F> {
    fut: Pin<Box<F>>,
    rec: Arc<Recorder>,
    a: usize,
}

impl<F: Future> Future for PollLog<F> {
    type Output = F::Output;
    fn poll(mut self: Pin<&mut Self>, cx: &mut Context<'_>) -> Poll<F::Output> {
        if self.rec.log_polls {
            self.rec.rec(K::RunPoll { a: self.a, inv: u32::MAX });
        }
        self.fut.as_mut().poll(cx)
    }
}

impl Actor for SimActor {
    type Args = (usize, Arc<World>);
    type Error = SimErr;

    async fn on_start(args: Self::Args, actor_ref: &ActorRef<Self>) -> Result<Self, SimErr> {
        let (idx, world) = args;
        world.rec.rec(K::StartBegin { a: idx });
        let mut me = SimActor { ident: actor_ref.identity(), idx, world: world.clone(), st: ActorState::default(), kept: vec![] };
        let hook = world.specs[idx].start.clone();
        me.run_steps(&hook.steps, HookId::Start, &Me::Strong(actor_ref)).await;
        match hook.out {
            Out::Ok | Out::False => {
                world.rec.rec(K::StartEnd { a: idx, out: Out::Ok, tag: 0 });
                Ok(me)
            }
            Out::Err => {
                let tag = world.rec.rec_with(|seq| K::StartEnd { a: idx, out: Out::Err, tag: seq });
                Err(SimErr { hook: "start", a: idx, tag })
            }
            Out::Panic => {
                world.rec.rec(K::StartEnd { a: idx, out: Out::Panic, tag: 0 });
                panic!("{PANIC_MARK}:start:{idx}");
            }
        }
    }

    fn on_run(
        &mut self,
        actor_weak: &ActorWeak<Self>,
    ) -> impl Future<Output = Result<bool, SimErr>> + Send {
        let rec = self.world.rec.clone();
        let a = self.idx;
        let fut = async move {
            let inv = self.st.run_invocations;
            self.st.run_invocations += 1;
            self.check_ident(actor_weak.identity(), "on_run");
            let world = self.world.clone();
            world.rec.rec(K::RunBegin { a, inv });
            if world.rec.overflowed() {
                panic!("{PANIC_MARK}:event-limit: on_run of actor {a} is being re-invoked without end (livelock)");
            }
            let script = world.specs[a].runs.get(inv as usize).cloned();
            match script {
                None => match world.specs[a].run_tail {
                    Tail::Done => {
                        world.rec.rec(K::RunEnd { a, inv, out: Out::False, tag: 0 });
                        self.st.run_completed += 1;
                        Ok(false)
                    }
                    Tail::Pend => {
                        std::future::pending::<()>().await;
                        unreachable!()
                    }
                },
                Some(h) => {
                    self.run_steps(&h.steps, HookId::Run(inv), &Me::Weak(actor_weak)).await;
                    self.st.run_completed += 1;
                    match h.out {
                        Out::Ok => {
                            world.rec.rec(K::RunEnd { a, inv, out: Out::Ok, tag: 0 });
                            Ok(true)
                        }
                        Out::False => {
                            world.rec.rec(K::RunEnd { a, inv, out: Out::False, tag: 0 });
                            Ok(false)
                        }
                        Out::Err => {
                            let tag = world.rec.rec_with(|seq| K::RunEnd { a, inv, out: Out::Err, tag: seq });
                            Err(SimErr { hook: "run", a, tag })
                        }
                        Out::Panic => {
                            world.rec.rec(K::RunEnd { a, inv, out: Out::Panic, tag: 0 });
                            panic!("{PANIC_MARK}:run:{a}:{inv}");
                        }
                    }
                }
            }
        };
        PollLog { fut: Box::pin(fut), rec, a }
    }

    async fn on_stop(&mut self, actor_weak: &ActorWeak<Self>, killed: bool) -> Result<(), SimErr> {
        let a = self.idx;
        let world = self.world.clone();
        world.rec.rec(K::StopBegin { a, killed });
        self.check_ident(actor_weak.identity(), "on_stop");
        if self.st.stop_seen.is_some() {
            world.rec.rec(K::Anomaly { prop: "C04", what: format!("on_stop invoked twice on actor {a}") });
        }
        self.st.stop_seen = Some(killed);
        let hook = world.specs[a].stop.clone();
        self.run_steps(&hook.steps, HookId::Stop, &Me::Weak(actor_weak)).await;
        match hook.out {
            Out::Ok | Out::False => {
                world.rec.rec(K::StopEnd { a, out: Out::Ok, tag: 0 });
                Ok(())
            }
            Out::Err => {
                let tag = world.rec.rec_with(|seq| K::StopEnd { a, out: Out::Err, tag: seq });
                Err(SimErr { hook: "stop", a, tag })
            }
            Out::Panic => {
                world.rec.rec(K::StopEnd { a, out: Out::Panic, tag: 0 });
                panic!("{PANIC_MARK}:stop:{a}");
            }
        }
    }
}
