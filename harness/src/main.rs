mod actor;
mod choices;
mod client;
mod gen;
mod laws;
mod capture;
mod monitors;
mod monitors2;
mod monitors3;
mod macrogen;
mod c19;
mod extras;
mod races;
mod rt;
mod props;
mod runner;
mod scenario;
mod shrink;
mod sim;
mod trace;
mod view;

use std::collections::HashMap;

/// the rsactor features this harness binary was built with (informational)
pub static FEATURES: Features = Features;
pub struct Features;
impl std::fmt::Display for Features {
    fn fmt(&self, f: &mut std::fmt::Formatter<'_>) -> std::fmt::Result {
        let mut v = vec![];
        if cfg!(feature = "tracing") {
            v.push("tracing");
        }
        if cfg!(feature = "metrics") {
            v.push("metrics");
        }
        if cfg!(feature = "test-utils") {
            v.push("test-utils");
        }
        if cfg!(feature = "deadlock-detection") {
            v.push("deadlock-detection");
        }
        write!(f, "{}", v.join(","))
    }
}


fn parse_args(args: &[String]) -> HashMap<String, String> {
    let mut m = HashMap::new();
    let mut i = 0;
    while i < args.len() {
        if let Some(k) = args[i].strip_prefix("--") {
            let v = args.get(i + 1).cloned().unwrap_or_default();
            m.insert(k.to_string(), v);
            i += 2;
        } else {
            m.insert(format!("_{}", m.len()), args[i].clone());
            i += 1;
        }
    }
    m
}

fn main() {
    let args: Vec<String> = std::env::args().skip(1).collect();
    trace::install_panic_hook();
    capture::install();
    let cmd = args.first().cloned().unwrap_or_default();
    let a = parse_args(&args[1.min(args.len())..]);
    let get = |k: &str, d: &str| a.get(k).cloned().unwrap_or_else(|| d.to_string());
    match cmd.as_str() {
        "run" => {
            let prop = get("prop", "C01");
            let tier = get("tier", "quick");
            let thorough = tier == "thorough";
            let found = if a.contains_key("rt") { props::get_rt(&prop, thorough) } else { props::get(&prop, thorough) };
            let Some(mut def) = found else {
                eprintln!("unknown property {prop}");
                std::process::exit(2);
            };
            if let Some(names) = a.get("profiles") {
                let keep: Vec<&str> = names.split(',').collect();
                def.profiles.retain(|p| keep.contains(&p.name));
            } else if !cfg!(feature = "deadlock-detection") {
                // profiles that generate ask cycles only make sense where cycles are detected
                def.profiles.retain(|p| !p.name.ends_with("-cyclic"));
            }
            let cases: u32 = a.get("cases").and_then(|s| s.parse().ok()).unwrap_or(if thorough { def.thorough_cases } else { def.quick_cases });
            let ra = runner::RunArgs {
                tier,
                seed: get("seed", "1").parse().unwrap_or(1),
                shard: get("shard", "0").parse().unwrap_or(0),
                cases,
                replay_dir: get("replays", "/verif/replays"),
                replay_out: a.get("replays-out").cloned().unwrap_or_else(|| get("replays", "/verif/replays")),
                known: runner::KnownFile::load(&get("known", "/verif/known_findings.json")),
            };
            if let Some(rb) = a.get("ref-bin") {
                runner::start_ref(rb).expect("reference build");
            }
            let (part, code) = runner::run_prop(&def, &ra);
            runner::stop_ref();
            let out = get("out", "");
            let js = serde_json::to_string(&part).unwrap();
            if out.is_empty() {
                println!("{js}");
            } else {
                std::fs::write(&out, js).expect("write part");
            }
            std::process::exit(code);
        }
        "capseq" => {
            let vals: Vec<usize> = get("vals", "-").split(',').filter_map(|s| s.parse().ok()).collect();
            if get("race", "0") == "1" {
                extras::caprace_child(&vals);
            } else {
                extras::capseq_child(&vals);
            }
        }
        "extra" => {
            let prop = get("prop", "");
            let tier = get("tier", "quick");
            let thorough = tier == "thorough";
            let seed: u64 = get("seed", "1").parse().unwrap_or(1);
            let rout = a.get("replays-out").cloned().unwrap_or_else(|| get("replays", "/verif/replays"));
            let mut part = runner::Part { property: prop.clone(), tier: tier.clone(), seed, ..Default::default() };
            let t0 = std::time::Instant::now();
            let code = match prop.as_str() {
                "C03" => extras::c03_race("C03", seed, if thorough { 1_200_000 } else { 40_000 }, &rout, &mut part),
                "C06" => extras::c06_kill_race(seed, if thorough { 40_000 } else { 2_000 }, &rout, &mut part),
                "C12" => extras::c03_race("C12", seed ^ 0x12, if thorough { 600_000 } else { 20_000 }, &rout, &mut part),
                "C13" => extras::c13_counter_race(seed, if thorough { 300 } else { 30 }, &rout, &mut part),
                "C17" => extras::c03_race("C17", seed ^ 0x17, if thorough { 600_000 } else { 20_000 }, &rout, &mut part),
                "C05" => extras::c05_laws(seed, if thorough { 200_000 } else { 5_000 }, &rout, &mut part),
                "C09" => extras::c09_caps(seed, if thorough { 400 } else { 40 }, &rout, &mut part),
                "C11" => extras::c11_ids(seed, if thorough { 400 } else { 40 }, &rout, &mut part),
                _ => 0,
            };
            let code = if code == 0 && prop == "C09" { extras::c09_cap_race(seed, if thorough { 600 } else { 60 }, &rout, &mut part) } else { code };
            let kinds = races::kinds_for(&prop);
            let code = if code == 0 && !kinds.is_empty() {
                races::run(&prop, kinds, seed, if thorough { 3000 } else { 150 }, &rout, &mut part, &extras::write_replay)
            } else {
                code
            };
            part.wall_s = t0.elapsed().as_secs_f64();
            let out = get("out", "");
            let js = serde_json::to_string(&part).unwrap();
            if out.is_empty() {
                println!("{js}");
            } else {
                std::fs::write(&out, js).expect("write part");
            }
            std::process::exit(code);
        }
        "c19" => {
            let tier = get("tier", "quick");
            let seed: u64 = get("seed", "1").parse().unwrap_or(1);
            let rout = a.get("replays-out").cloned().unwrap_or_else(|| get("replays", "/verif/replays"));
            let mut part = runner::Part { property: "C19".into(), tier: tier.clone(), seed, ..Default::default() };
            let t0 = std::time::Instant::now();
            let corpus = get("corpus", "/verif/target/macrogen/corpus");
            let code = if let Some(f) = a.get("file") {
                c19::replay(f, std::path::Path::new(&corpus), &get("repo", "/repo"), &get("lock", "/verif/harness/Cargo.lock"))
            } else {
                c19::run(seed, &tier, std::path::Path::new(&corpus), &get("repo", "/repo"), &get("lock", "/verif/harness/Cargo.lock"), &rout, &mut part)
            };
            part.wall_s = t0.elapsed().as_secs_f64();
            let out = get("out", "");
            if !out.is_empty() {
                std::fs::write(&out, serde_json::to_string(&part).unwrap()).expect("write part");
            }
            std::process::exit(code);
        }
        "serve" => {
            runner::serve();
        }
        "replay" => {
            if let Some(rb) = a.get("ref-bin") {
                runner::start_ref(rb).expect("reference build");
            }
            let prop = get("prop", "C01");
            let Some(def) = props::get(&prop, false) else {
                eprintln!("unknown property {prop}");
                std::process::exit(2);
            };
            let known = runner::KnownFile::load(&get("known", "/verif/known_findings.json"));
            // replay files written by the non-scenario checks carry an `extra` payload
            if let Ok(s) = std::fs::read_to_string(get("file", "")) {
                if let Ok(x) = serde_json::from_str::<extras::ExtraReplay>(&s) {
                    let errs = extras::replay_extra(&prop, &x.extra);
                    if errs.is_empty() {
                        println!("replay passed");
                        std::process::exit(0);
                    }
                    println!("VIOLATION property={} replay={}", prop, get("file", ""));
                    println!("  kind={} detail={}", x.kind, errs.join("; "));
                    std::process::exit(1);
                }
            }
            // a scenario recorded by a real-thread supplement is replayed on the real-thread engine
            let def = match std::fs::read_to_string(get("file", "")).ok().and_then(|s| serde_json::from_str::<runner::ReplayFile>(&s).ok()) {
                Some(rf) if rf.scenario.needs_rt() && !def.is_rt() => props::get_rt(&prop, false).unwrap_or(def),
                _ => def,
            };
            let code = runner::replay(&def, &get("file", ""), &known);
            std::process::exit(code);
        }
        _ => {
            eprintln!("usage: vh run --prop ID --tier quick|thorough --seed N [--shard I --cases K --out FILE] | vh replay --prop ID --file F");
            std::process::exit(2);
        }
    }
}
