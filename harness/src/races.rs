//! Generated race experiments on real OS threads (multi_thread runtime + std threads). The OS owns
//! the schedule, so what is generated is the *configuration* of a round (capacity, number of
//! threads, API mix, jitter); every oracle is sound under any interleaving: it only uses facts that
//! hold whatever the schedule is (a call began after another returned, a gate the harness itself
//! holds closed, counts, one-sided wall-clock bounds with 10 s slack).
//!
//!  * drop race   (C07, C04): the last ActorRef goes away on another thread than the one polling
//!    an *active* actor -> on_stop(false) exactly once, Completed{killed:false}, earlier tells handled.
//!  * burst       (C17, C02, C01): N threads released together send through a random mix of
//!    blocking / deprecated / async APIs into a small mailbox of a live, draining actor -> every
//!    call Ok, replies right, everything handled exactly once, per-sender order kept.
//!  * parked burst (C10, C17, C09): the actor sits in a handler behind a gate only the harness opens;
//!    N threads burst timeout variants -> each returns by its deadline (+slack) while the gate is
//!    still closed, never early, at most `capacity` tells succeed, rejected tells are never handled.
//!  * stop race   (C02): several threads stop() the same actor; whoever got Ok then sends -> nothing
//!    sent after a stop() returned is ever handled; everything accepted before the first stop() call
//!    is handled.

use crate::runner::Part;
use rsactor::{Actor, ActorRef, ActorResult, ActorWeak, Message};
use std::sync::atomic::{AtomicBool, AtomicUsize, Ordering};
use std::sync::{Arc, Mutex};
use std::time::{Duration, Instant};

pub struct Shared {
    pub handled: Mutex<Vec<u32>>,
    pub on_stop: Mutex<Vec<bool>>,
    pub spin: u32,
    /// ring experiment: whom this actor asks while handling `Start`
    pub next: Mutex<Option<ActorWeak<RaceActor>>>,
    /// ring experiment: the handlers of all participants line up here before they ask
    pub meet: Mutex<Option<(Arc<AtomicUsize>, usize)>>,
    /// metrics experiment: longest time demonstrably spent inside a `Work` handler (ns)
    pub max_inner_ns: std::sync::atomic::AtomicU64,
    /// set by the first on_run invocation (on_start is over, the lifecycle holds no strong reference)
    pub ran: AtomicBool,
    /// completed on_run invocations
    pub ticks: AtomicUsize,
    /// CallBack handlers that finished (with the result of their ask: 1 = Ok)
    pub callbacks: Mutex<Vec<u64>>,
}

pub struct RaceActor {
    sh: Arc<Shared>,
    gate: tokio::sync::watch::Receiver<bool>,
    run_mode: u8,
}

pub struct Item(pub u32);
pub struct Hold;
pub struct Start;
pub struct Poke;
/// busy for the given number of microseconds (really), measured from inside
pub struct Work(pub u64);
/// ask the next actor `Serve`
pub struct StartServe;
/// tell oneself `CallBack`, then answer
pub struct Serve;
/// ask the next actor `Poke`
pub struct CallBack;
/// ask the next actor `Poke` n times in a row (background load on the wait-for graph)
pub struct Loop(pub u32);

pub fn reply_of(id: u32) -> u64 {
    id as u64 * 7 + 1
}

impl Actor for RaceActor {
    type Args = (Arc<Shared>, tokio::sync::watch::Receiver<bool>, u8);
    type Error = String;
    async fn on_start(a: Self::Args, _r: &ActorRef<Self>) -> Result<Self, String> {
        Ok(RaceActor { sh: a.0, gate: a.1, run_mode: a.2 })
    }
    async fn on_run(&mut self, _w: &ActorWeak<Self>) -> Result<bool, String> {
        self.sh.ran.store(true, Ordering::Release);
        if self.run_mode == 2 {
            tokio::time::sleep(Duration::from_millis(1)).await;
            self.sh.ticks.fetch_add(1, Ordering::AcqRel);
            return Ok(true);
        }
        if self.run_mode == 1 {
            tokio::task::yield_now().await;
            Ok(true)
        } else {
            Ok(false)
        }
    }
    async fn on_stop(&mut self, _w: &ActorWeak<Self>, killed: bool) -> Result<(), String> {
        self.sh.on_stop.lock().unwrap().push(killed);
        Ok(())
    }
}

impl Message<Item> for RaceActor {
    type Reply = u64;
    async fn handle(&mut self, m: Item, _r: &ActorRef<Self>) -> u64 {
        self.sh.handled.lock().unwrap().push(m.0);
        for _ in 0..self.sh.spin {
            std::hint::spin_loop();
        }
        reply_of(m.0)
    }
}

impl Message<Start> for RaceActor {
    type Reply = u64;
    async fn handle(&mut self, _m: Start, _r: &ActorRef<Self>) -> u64 {
        let next = self.sh.next.lock().unwrap().as_ref().and_then(|w| w.upgrade());
        let meet = self.sh.meet.lock().unwrap().clone();
        if let Some((m, parties)) = meet {
            m.fetch_add(1, Ordering::AcqRel);
            let t0 = Instant::now();
            while m.load(Ordering::Acquire) < parties && t0.elapsed() < Duration::from_millis(20) {
                std::hint::spin_loop();
            }
        }
        match next {
            None => 0,
            Some(n) => match n.ask(Poke).await {
                Ok(_) => 1,
                Err(_) => 2,
            },
        }
    }
}

impl Message<Work> for RaceActor {
    type Reply = u64;
    async fn handle(&mut self, m: Work, _r: &ActorRef<Self>) -> u64 {
        let t0 = Instant::now();
        while (t0.elapsed().as_micros() as u64) < m.0 {
            std::hint::spin_loop();
        }
        let ns = t0.elapsed().as_nanos() as u64;
        self.sh.max_inner_ns.fetch_max(ns, Ordering::AcqRel);
        ns
    }
}

impl Message<StartServe> for RaceActor {
    type Reply = u64;
    async fn handle(&mut self, _m: StartServe, _r: &ActorRef<Self>) -> u64 {
        let next = self.sh.next.lock().unwrap().as_ref().and_then(|w| w.upgrade());
        match next {
            None => 0,
            Some(n) => match n.ask(Serve).await {
                Ok(_) => 1,
                Err(_) => 2,
            },
        }
    }
}

impl Message<Serve> for RaceActor {
    type Reply = u64;
    async fn handle(&mut self, _m: Serve, r: &ActorRef<Self>) -> u64 {
        let _ = r.tell(CallBack).await;
        7
    }
}

impl Message<CallBack> for RaceActor {
    type Reply = ();
    async fn handle(&mut self, _m: CallBack, _r: &ActorRef<Self>) {
        let next = self.sh.next.lock().unwrap().as_ref().and_then(|w| w.upgrade());
        let res = match next {
            None => 0,
            Some(n) => match n.ask(Poke).await {
                Ok(_) => 1,
                Err(_) => 2,
            },
        };
        self.sh.callbacks.lock().unwrap().push(res);
    }
}

impl Message<Loop> for RaceActor {
    type Reply = u64;
    async fn handle(&mut self, m: Loop, _r: &ActorRef<Self>) -> u64 {
        let next = self.sh.next.lock().unwrap().as_ref().and_then(|w| w.upgrade());
        let mut ok = 0;
        if let Some(n) = next {
            for _ in 0..m.0 {
                if n.ask(Poke).await.is_ok() {
                    ok += 1;
                }
            }
        }
        ok
    }
}

impl Message<Poke> for RaceActor {
    type Reply = u64;
    async fn handle(&mut self, _m: Poke, _r: &ActorRef<Self>) -> u64 {
        7
    }
}

impl Message<Hold> for RaceActor {
    type Reply = ();
    async fn handle(&mut self, _m: Hold, _r: &ActorRef<Self>) {
        let mut rx = self.gate.clone();
        let _ = rx.wait_for(|o| *o).await;
    }
}

struct Rng(u64);
impl Rng {
    fn new(seed: u64) -> Rng {
        Rng(seed.wrapping_mul(0x9E3779B97F4A7C15) | 1)
    }
    fn below(&mut self, n: u64) -> u64 {
        self.0 ^= self.0 << 13;
        self.0 ^= self.0 >> 7;
        self.0 ^= self.0 << 17;
        (self.0 >> 11) % n
    }
}

fn spawn_actor(rt: &tokio::runtime::Runtime, cap: usize, run_mode: u8, spin: u32) -> (ActorRef<RaceActor>, tokio::task::JoinHandle<ActorResult<RaceActor>>, Arc<Shared>, tokio::sync::watch::Sender<bool>) {
    let sh = Arc::new(Shared { handled: Mutex::new(vec![]), on_stop: Mutex::new(vec![]), spin, next: Mutex::new(None), meet: Mutex::new(None), max_inner_ns: std::sync::atomic::AtomicU64::new(0), ran: AtomicBool::new(false), ticks: AtomicUsize::new(0), callbacks: Mutex::new(vec![]) });
    let (tx, rx) = tokio::sync::watch::channel(false);
    let _g = rt.enter();
    let (r, jh) = rsactor::spawn_with_mailbox_capacity::<RaceActor>((sh.clone(), rx, run_mode), cap);
    (r, jh, sh, tx)
}

fn join(rt: &tokio::runtime::Runtime, jh: tokio::task::JoinHandle<ActorResult<RaceActor>>) -> Option<Result<ActorResult<RaceActor>, String>> {
    match rt.block_on(async { tokio::time::timeout(Duration::from_secs(10), jh).await }) {
        Err(_) => None,
        Ok(Ok(r)) => Some(Ok(r)),
        Ok(Err(e)) => Some(Err(format!("{e}"))),
    }
}

pub struct Bad {
    pub prop: &'static str,
    pub kind: &'static str,
    pub detail: String,
}

fn bad(prop: &'static str, kind: &'static str, detail: String) -> Option<Bad> {
    Some(Bad { prop, kind, detail })
}

thread_local! {
    /// clause violations of the current round besides the one it returns (one observation can break
    /// the clauses of two properties, e.g. on_stop(killed=true) and a result with killed=true)
    static ALSO: std::cell::RefCell<Vec<Bad>> = const { std::cell::RefCell::new(Vec::new()) };
}

fn also(prop: &'static str, kind: &'static str, detail: String) {
    ALSO.with(|a| a.borrow_mut().push(Bad { prop, kind, detail }));
}

#[derive(Clone, Copy, Debug, PartialEq)]
enum Api {
    BTell,
    BAsk,
    DepTell,
    DepAsk,
    BTellT,
    BAskT,
    Tell,
    Ask,
    TellT,
    AskT,
}

const OPEN_APIS: [Api; 10] = [Api::BTell, Api::BAsk, Api::DepTell, Api::DepAsk, Api::BTellT, Api::BAskT, Api::Tell, Api::Ask, Api::TellT, Api::AskT];
const TIMED_APIS: [Api; 4] = [Api::BTellT, Api::BAskT, Api::TellT, Api::AskT];

#[derive(Debug, PartialEq)]
enum Outc {
    Ok,
    Reply(u64),
    Timeout,
    Err(String),
}

#[allow(deprecated)]
fn call(r: &ActorRef<RaceActor>, h: &tokio::runtime::Handle, api: Api, id: u32, t: Duration) -> Outc {
    let conv = |e: rsactor::Error| if e.is_retryable() { Outc::Timeout } else { Outc::Err(format!("{e}")) };
    match api {
        Api::BTell => r.blocking_tell(Item(id), None).map(|_| Outc::Ok).unwrap_or_else(conv),
        Api::BAsk => r.blocking_ask(Item(id), None).map(Outc::Reply).unwrap_or_else(conv),
        Api::DepTell => r.tell_blocking(Item(id), Some(Duration::from_millis(1))).map(|_| Outc::Ok).unwrap_or_else(conv),
        Api::DepAsk => r.ask_blocking(Item(id), Some(Duration::from_millis(1))).map(Outc::Reply).unwrap_or_else(conv),
        Api::BTellT => r.blocking_tell(Item(id), Some(t)).map(|_| Outc::Ok).unwrap_or_else(conv),
        Api::BAskT => r.blocking_ask(Item(id), Some(t)).map(Outc::Reply).unwrap_or_else(conv),
        Api::Tell => h.block_on(r.tell(Item(id))).map(|_| Outc::Ok).unwrap_or_else(conv),
        Api::Ask => h.block_on(r.ask(Item(id))).map(Outc::Reply).unwrap_or_else(conv),
        Api::TellT => h.block_on(r.tell_with_timeout(Item(id), t)).map(|_| Outc::Ok).unwrap_or_else(conv),
        Api::AskT => h.block_on(r.ask_with_timeout(Item(id), t)).map(Outc::Reply).unwrap_or_else(conv),
    }
}

fn is_tell(a: Api) -> bool {
    matches!(a, Api::BTell | Api::DepTell | Api::BTellT | Api::Tell | Api::TellT)
}

/// Threads announce themselves and spin; the releaser waits until all of them are spinning, so that
/// they really start within a few nanoseconds of each other.
struct Gate {
    ready: AtomicUsize,
    go: AtomicBool,
}

impl Gate {
    fn new() -> Arc<Gate> {
        Arc::new(Gate { ready: AtomicUsize::new(0), go: AtomicBool::new(false) })
    }
    fn wait(&self) {
        self.ready.fetch_add(1, Ordering::AcqRel);
        while !self.go.load(Ordering::Acquire) {
            std::hint::spin_loop();
        }
    }
    fn release(&self, n: usize) {
        let t0 = Instant::now();
        while self.ready.load(Ordering::Acquire) < n && t0.elapsed() < Duration::from_secs(5) {
            std::hint::spin_loop();
        }
        self.go.store(true, Ordering::Release);
    }
}

// ---------------------------------------------------------------------------------------------
// drop race
// ---------------------------------------------------------------------------------------------
fn drop_race_round(rt: &tokio::runtime::Runtime, rng: &mut Rng, cfg: &mut String) -> Option<Bad> {
    let k = 1 + rng.below(8) as usize;
    let cap = [1usize, 2, 8][rng.below(3) as usize];
    let run_mode = if rng.below(4) == 0 { 0 } else { 1 };
    let droppers = 1 + rng.below(3) as usize; // clones dropped simultaneously by several threads
    let tells = rng.below(3) as u32;
    *cfg = format!("drop:k{k}:cap{cap}:run{run_mode}:droppers{droppers}:tells{tells}");
    let mut actors = vec![];
    for _ in 0..k {
        actors.push(spawn_actor(rt, cap, run_mode, 0));
    }
    // make sure each is running, then leave some accepted tells behind
    for (i, (r, _, _, _)) in actors.iter().enumerate() {
        match rt.block_on(r.ask(Item(1))) {
            Ok(v) if v == reply_of(1) => {}
            other => return bad("C07", "live-actor-not-serving", format!("actor {i} of a fresh batch answered its first ask with {other:?}")),
        }
        for t in 0..tells {
            if let Err(e) = rt.block_on(r.tell(Item(10 + t))) {
                return bad("C07", "live-actor-not-serving", format!("tell to a live, referenced actor failed: {e}"));
            }
        }
    }
    let mut joins = vec![];
    let mut shs = vec![];
    let go = Gate::new();
    let mut hs = vec![];
    for (r, jh, sh, tx) in actors {
        joins.push(jh);
        shs.push(sh);
        drop(tx);
        let mut clones: Vec<ActorRef<RaceActor>> = (1..droppers).map(|_| r.clone()).collect();
        clones.push(r);
        for c in clones {
            let go = go.clone();
            hs.push(std::thread::spawn(move || {
                go.wait();
                drop(c);
            }));
        }
    }
    go.release(hs.len());
    for h in hs {
        let _ = h.join();
    }
    for (i, jh) in joins.into_iter().enumerate() {
        let sh = &shs[i];
        match join(rt, jh) {
            None => return bad("C07", "did-not-end", format!("actor {i}: every strong reference was dropped ({droppers} thread(s)) but its JoinHandle had not resolved 10 s later")),
            Some(Err(e)) => return bad("C07", "not-graceful", format!("actor {i}: every reference dropped; JoinHandle reported {e}")),
            Some(Ok(res)) => {
                let stops = sh.on_stop.lock().unwrap().clone();
                if stops != vec![false] && (!res.is_completed() || res.was_killed()) {
                    also("C04", "on-stop-calls-wrong", format!("actor {i}: every reference dropped (last of {droppers} handle(s) on another thread), kill() never called; on_stop calls were {stops:?}, expected exactly one with killed=false"));
                }
                if !res.is_completed() || res.was_killed() {
                    return bad("C05", "result-not-graceful", format!("actor {i}: every reference dropped (last of {droppers} handle(s) on another thread), kill() never called; result completed={} killed={}", res.is_completed(), res.was_killed()));
                }
                if stops != vec![false] {
                    return bad("C04", "on-stop-calls-wrong", format!("actor {i} (on_run {}; last of {droppers} handle(s) dropped on another thread) ended as Completed but on_stop calls were {stops:?}, expected exactly one with killed=false", if run_mode == 1 { "re-arming" } else { "idle" }));
                }
                let handled = sh.handled.lock().unwrap().clone();
                let want: Vec<u32> = std::iter::once(1).chain((0..tells).map(|t| 10 + t)).collect();
                if handled != want {
                    return bad("C01", "accepted-not-handled", format!("actor {i}: tells {want:?} were accepted before the last reference was dropped, handled {handled:?}"));
                }
            }
        }
    }
    None
}

// ---------------------------------------------------------------------------------------------
// kill is the only thing that ends the actor
// ---------------------------------------------------------------------------------------------
/// 1-4 threads kill a busy (re-arming on_run) or idle actor that nobody stops and whose handle is
/// kept: every kill() is Ok (C06), on_stop runs exactly once with killed=true (C04) and the result
/// is Completed with killed=true (C05).
fn killonly_round(rt: &tokio::runtime::Runtime, rng: &mut Rng, cfg: &mut String) -> Option<Bad> {
    let k = 1 + rng.below(6) as usize;
    let threads = 1 + rng.below(4) as usize;
    let run_mode = if rng.below(2) == 0 { 0 } else { 1 };
    // idle actors: the kill lands just as the actor finishes a message and goes back to sleep
    let after_msg = run_mode == 0 && rng.below(4) != 0;
    // busy actors: two feeder threads keep the mailbox non-empty while the kill arrives
    let feed = !after_msg && rng.below(2) == 0;
    let jitter = rng.below(3000);
    *cfg = format!("killonly:k{k}:threads{threads}:run{run_mode}:{}", if after_msg { "as-it-goes-idle" } else if feed { "while-fed" } else { "any-time" });
    let mut actors = vec![];
    for _ in 0..k {
        let a = spawn_actor(rt, 2, run_mode, 0);
        let t0 = Instant::now();
        while !a.2.ran.load(Ordering::Acquire) && t0.elapsed() < Duration::from_secs(10) {
            std::thread::yield_now();
        }
        actors.push(a);
    }
    let go = Gate::new();
    let mut hs = vec![];
    let feeding = Arc::new(AtomicBool::new(true));
    let mut feeders = vec![];
    if feed {
        for (r, _, _, _) in &actors {
            for f in 0..2u32 {
                let (r2, feeding, h2) = (r.clone(), feeding.clone(), rt.handle().clone());
                feeders.push(std::thread::spawn(move || {
                    let mut i = 0u32;
                    while feeding.load(Ordering::Acquire) {
                        let id = 10_000 * (f + 1) + i;
                        let ok = if f == 0 { r2.blocking_tell(Item(id), None).is_ok() } else { h2.block_on(r2.tell(Item(id))).is_ok() };
                        if !ok {
                            break;
                        }
                        i += 1;
                    }
                }));
            }
        }
        std::thread::sleep(Duration::from_micros(200));
    }
    for (r, _, sh, _) in &actors {
        for _ in 0..threads {
            let (r2, go, sh2) = (r.clone(), go.clone(), sh.clone());
            hs.push(std::thread::spawn(move || {
                go.wait();
                if after_msg {
                    let _ = r2.blocking_tell(Item(5), None);
                    let t0 = Instant::now();
                    while !sh2.handled.lock().unwrap().contains(&5) && t0.elapsed() < Duration::from_secs(5) {
                        std::hint::spin_loop();
                    }
                    for _ in 0..jitter {
                        std::hint::spin_loop();
                    }
                }
                r2.kill().map_err(|e| format!("{e}"))
            }));
        }
    }
    go.release(hs.len());
    for h in hs {
        match h.join() {
            Ok(Ok(())) => {}
            Ok(Err(e)) => return bad("C06", "kill-failed", format!("kill() returned Err({e}) with {threads} thread(s) killing the same actor at once")),
            Err(_) => return bad("C06", "kill-panicked", "a thread calling kill() panicked".to_string()),
        }
    }
    feeding.store(false, Ordering::Release);
    for f in feeders {
        let _ = f.join();
    }
    for (i, (r, jh, sh, _tx)) in actors.into_iter().enumerate() {
        let res = join(rt, jh);
        drop(r);
        match res {
            None => return bad("C06", "killed-actor-did-not-end", format!("actor {i} ({}): JoinHandle unresolved 10 s after kill() had returned Ok on {threads} thread(s)", if after_msg { "idle; killed just as it finished handling a message" } else if run_mode == 1 { "re-arming on_run" } else { "idle" })),
            Some(Err(e)) => return bad("C05", "result-wrong", format!("actor {i}: killed, no hook fails; JoinHandle reported {e}")),
            Some(Ok(res)) => {
                let stops = sh.on_stop.lock().unwrap().clone();
                let ctx = format!("actor {i} ({} on_run{}) was ended by kill() from {threads} thread(s); nobody called stop() and a strong handle was held until after the join", if run_mode == 1 { "re-arming" } else { "idle" }, if feed { ", two threads feeding it messages" } else { "" });
                if stops != vec![true] && (!res.is_completed() || !res.was_killed()) {
                    also("C04", "on-stop-calls-wrong", format!("{ctx}: on_stop calls were {stops:?}, expected exactly one with killed=true"));
                }
                if !res.is_completed() || !res.was_killed() {
                    also("C06", "not-reported-killed", format!("{ctx}: result completed={} killed={}", res.is_completed(), res.was_killed()));
                    return bad("C05", "result-wrong", format!("{ctx}: result completed={} killed={}, stopped_normally={}", res.is_completed(), res.was_killed(), res.stopped_normally()));
                }
                if stops != vec![true] {
                    return bad("C04", "on-stop-calls-wrong", format!("{ctx}: on_stop calls were {stops:?}, expected exactly one with killed=true"));
                }
            }
        }
    }
    None
}

/// The same as the "as it goes idle" variant above, but in a tight loop on persistent threads (no
/// thread is created per attempt): each thread spawns an actor, sends it one message, waits until
/// the handler has run, waits a generated number of spins more and kills it just as it goes back to
/// sleep. The kill must not be lost: the actor ends within 10 s, killed=true, on_stop(true) once.
fn killidle_round(rt: &tokio::runtime::Runtime, rng: &mut Rng, cfg: &mut String) -> Option<Bad> {
    let threads = 2 + rng.below(3) as usize;
    let attempts = 300u32;
    let max_jitter = [50u64, 400, 3000][rng.below(3) as usize];
    *cfg = format!("killidle:threads{threads}:jitter{max_jitter}");
    let h = rt.handle().clone();
    let mut hs = vec![];
    for t in 0..threads {
        let h2 = h.clone();
        let mut x = Rng::new(rng.below(u32::MAX as u64) + t as u64);
        hs.push(std::thread::spawn(move || -> Option<Bad> {
            for i in 0..attempts {
                let sh = Arc::new(Shared { handled: Mutex::new(vec![]), on_stop: Mutex::new(vec![]), spin: 0, next: Mutex::new(None), meet: Mutex::new(None), max_inner_ns: std::sync::atomic::AtomicU64::new(0), ran: AtomicBool::new(false), ticks: AtomicUsize::new(0), callbacks: Mutex::new(vec![]) });
                let (_tx, rx) = tokio::sync::watch::channel(false);
                let (r, jh) = {
                    let _g = h2.enter();
                    rsactor::spawn_with_mailbox_capacity::<RaceActor>((sh.clone(), rx, 0), 2)
                };
                if r.blocking_tell(Item(5), None).is_err() {
                    return bad("C17", "send-failed-on-live-actor", "blocking_tell to a fresh actor failed".to_string());
                }
                let t0 = Instant::now();
                while !sh.handled.lock().unwrap().contains(&5) {
                    if t0.elapsed() > Duration::from_secs(5) {
                        return bad("C01", "accepted-not-handled", "a fresh actor did not handle its first message within 5 s".to_string());
                    }
                    std::hint::spin_loop();
                }
                for _ in 0..x.below(max_jitter + 1) {
                    std::hint::spin_loop();
                }
                if let Err(e) = r.kill() {
                    return bad("C06", "kill-failed", format!("kill() returned Err({e})"));
                }
                let res = h2.block_on(async { tokio::time::timeout(Duration::from_secs(10), jh).await });
                match res {
                    Err(_) => return bad("C06", "killed-actor-did-not-end", format!("attempt {i}: kill() returned Ok just as the (otherwise idle) actor had finished handling a message; 10 s later its JoinHandle had not resolved and is_alive() = {}", r.is_alive())),
                    Ok(Err(e)) => return bad("C05", "result-wrong", format!("killed actor: JoinHandle reported {e}")),
                    Ok(Ok(res)) => {
                        let stops = sh.on_stop.lock().unwrap().clone();
                        if !res.is_completed() || !res.was_killed() {
                            if stops != vec![true] {
                                also("C04", "on-stop-calls-wrong", format!("only kill() ended the actor; on_stop calls {stops:?}"));
                            }
                            also("C06", "not-reported-killed", format!("only kill() ended the actor; result completed={} killed={}", res.is_completed(), res.was_killed()));
                            return bad("C05", "result-wrong", format!("only kill() ended the actor; result completed={} killed={}", res.is_completed(), res.was_killed()));
                        }
                        if stops != vec![true] {
                            return bad("C04", "on-stop-calls-wrong", format!("only kill() ended the actor; on_stop calls {stops:?}"));
                        }
                    }
                }
            }
            None
        }));
    }
    let mut first = None;
    for hd in hs {
        match hd.join() {
            Ok(None) => {}
            Ok(Some(b)) => first = first.or(Some(b)),
            Err(_) => return bad("C06", "kill-panicked", "a thread of the kill loop panicked".to_string()),
        }
    }
    first
}

// ---------------------------------------------------------------------------------------------
// burst into a live, draining actor
// ---------------------------------------------------------------------------------------------
fn burst_round(rt: &tokio::runtime::Runtime, rng: &mut Rng, cfg: &mut String) -> Option<Bad> {
    let cap = [1usize, 2, 4][rng.below(3) as usize];
    let n = 2 + rng.below(7) as usize;
    let per = 1 + rng.below(4) as u32;
    let spin = [0u32, 50, 500][rng.below(3) as usize];
    let bursts = 1 + rng.below(4) as u32;
    let apis: Vec<Api> = (0..n).map(|_| OPEN_APIS[rng.below(OPEN_APIS.len() as u64) as usize]).collect();
    *cfg = format!("burst:cap{cap}:n{n}:per{per}:spin{spin}:bursts{bursts}");
    let (r, jh, sh, _tx) = spawn_actor(rt, cap, 0, spin);
    let h = rt.handle().clone();
    let mut next_id = 100u32;
    let mut sent: Vec<Vec<u32>> = vec![vec![]; n];
    for _ in 0..bursts {
        let go = Gate::new();
        let mut hs = vec![];
        for t in 0..n {
            let ids: Vec<u32> = (0..per).map(|j| next_id + (t as u32) * 10 + j).collect();
            sent[t].extend(ids.iter().copied());
            let (r2, go, h2, api) = (r.clone(), go.clone(), h.clone(), apis[t]);
            hs.push(std::thread::spawn(move || {
                go.wait();
                let mut out = vec![];
                for id in ids {
                    out.push((id, call(&r2, &h2, api, id, Duration::from_secs(20))));
                }
                out
            }));
        }
        go.release(n);
        for (t, hd) in hs.into_iter().enumerate() {
            let Ok(outs) = hd.join() else { return bad("C17", "blocking-call-panicked", format!("a sender thread using {:?} panicked", apis[t])) };
            for (id, o) in outs {
                let fine = match (&o, is_tell(apis[t])) {
                    (Outc::Ok, true) => true,
                    (Outc::Reply(v), false) => *v == reply_of(id),
                    _ => false,
                };
                if !fine {
                    let blocking_api = matches!(apis[t], Api::BTell | Api::BAsk | Api::DepTell | Api::DepAsk | Api::BTellT | Api::BAskT);
                    let (p, kind) = match o {
                        Outc::Reply(_) => ("C03", "wrong-reply"),
                        Outc::Timeout => (if blocking_api { "C17" } else { "C10" }, "timeout-without-timeout"),
                        // "a send into a full mailbox waits rather than failing" (C09); for the blocking API: C17
                        _ => (if blocking_api { "C17" } else { "C09" }, "send-failed-on-live-actor"),
                    };
                    return bad(p, kind, format!("{:?} of message {id} to a live actor (capacity {cap}, {n} threads released together, never stopped) returned {o:?}", apis[t]));
                }
            }
        }
        next_id += 100;
        // let the mailbox drain so that the next burst meets free slots
        let _ = rt.block_on(r.ask(Item(next_id - 1)));
    }
    if let Err(e) = rt.block_on(r.stop()) {
        return bad("C17", "send-failed-on-live-actor", format!("stop() failed on a live actor: {e}"));
    }
    drop(r);
    let Some(Ok(_)) = join(rt, jh) else { return bad("C07", "did-not-end", "stopped actor did not end within 10 s".to_string()) };
    let handled = sh.handled.lock().unwrap().clone();
    for t in 0..n {
        let mine: Vec<u32> = handled.iter().copied().filter(|id| sent[t].contains(id)).collect();
        if mine != sent[t] {
            let (p, kind) = if mine.len() == sent[t].len() { ("C02", "order-inversion") } else { ("C01", "accepted-not-handled") };
            return bad(p, kind, format!("thread {t} ({:?}) sent {:?} (every call returned Ok before the next began); the actor handled {mine:?}", apis[t], sent[t]));
        }
    }
    None
}

// ---------------------------------------------------------------------------------------------
// burst of timeout variants against an actor parked behind a gate
// ---------------------------------------------------------------------------------------------
fn parked_round(rt: &tokio::runtime::Runtime, rng: &mut Rng, cfg: &mut String) -> Option<Bad> {
    let cap = [1usize, 2, 4][rng.below(3) as usize];
    let n = 2 + rng.below(7) as usize;
    let t_ms = [5u64, 20, 40][rng.below(3) as usize];
    let prefill = rng.below(cap as u64 + 1) as usize; // slots already taken before the burst
    let apis: Vec<Api> = (0..n).map(|_| TIMED_APIS[rng.below(TIMED_APIS.len() as u64) as usize]).collect();
    *cfg = format!("parked:cap{cap}:n{n}:t{t_ms}:prefill{prefill}");
    let (r, jh, sh, tx) = spawn_actor(rt, cap, 0, 0);
    let h = rt.handle().clone();
    if rt.block_on(r.tell(Hold)).is_err() {
        return bad("C17", "send-failed-on-live-actor", "tell(Hold) failed on a fresh actor".to_string());
    }
    // wait until the Hold handler has been taken out of the mailbox: an ask_with_timeout that is
    // accepted proves a free slot; simpler and sound: poll until a tell_with_timeout(0) succeeds
    let mut pre = vec![];
    let t0 = Instant::now();
    while pre.len() < prefill {
        let id = 50 + pre.len() as u32;
        match rt.block_on(r.tell_with_timeout(Item(id), Duration::from_millis(200))) {
            Ok(()) => pre.push(id),
            Err(_) if t0.elapsed() < Duration::from_secs(10) => {}
            Err(e) => return bad("C09", "send-waits-while-slot-free", format!("prefill tell could not be placed within 10 s: {e}")),
        }
    }
    let timeout = Duration::from_millis(t_ms);
    let go = Gate::new();
    let done = Arc::new(AtomicUsize::new(0));
    let mut hs = vec![];
    for t in 0..n {
        let (r2, go, h2, api, done) = (r.clone(), go.clone(), h.clone(), apis[t], done.clone());
        hs.push(std::thread::spawn(move || {
            go.wait();
            let b = Instant::now();
            let o = call(&r2, &h2, api, 100 + t as u32, timeout);
            let el = b.elapsed();
            done.fetch_add(1, Ordering::Release);
            (o, el)
        }));
    }
    go.release(n);
    // the gate stays closed until every caller is back, or the slack is used up
    let limit = Instant::now() + timeout + Duration::from_secs(10);
    while done.load(Ordering::Acquire) < n && Instant::now() < limit {
        std::thread::sleep(Duration::from_millis(1));
    }
    let late = n - done.load(Ordering::Acquire);
    let _ = tx.send(true);
    let mut ok_tells = vec![];
    let mut rejected_tells = vec![];
    let mut results = vec![];
    for (t, hd) in hs.into_iter().enumerate() {
        let Ok((o, el)) = hd.join() else { return bad("C17", "blocking-call-panicked", format!("a caller using {:?} panicked", apis[t])) };
        results.push((t, o, el));
    }
    if late > 0 {
        let who: Vec<String> = results.iter().filter(|(_, _, el)| *el > timeout + Duration::from_secs(9)).map(|(t, o, el)| format!("{:?} -> {o:?} after {el:?}", apis[*t])).collect();
        return bad("C10", "late", format!("{late} of {n} calls with a {t_ms} ms timeout had not returned 10 s after the deadline although the actor (capacity {cap}, {prefill} slot(s) taken) stayed parked in a handler the whole time: {who:?}"));
    }
    for (t, o, el) in &results {
        let id = 100 + *t as u32;
        match o {
            Outc::Ok if is_tell(apis[*t]) => ok_tells.push(id),
            Outc::Timeout => {
                if *el + Duration::from_millis(1) < timeout {
                    return bad("C10", "early-timeout", format!("{:?} returned Timeout after {el:?}, timeout {t_ms} ms", apis[*t]));
                }
                if is_tell(apis[*t]) {
                    rejected_tells.push(id);
                }
            }
            other => {
                return bad("C10", "wrong-result", format!("{:?} with a {t_ms} ms timeout against an actor parked in a handler (live, never stopped) returned {other:?}", apis[*t]));
            }
        }
    }
    if ok_tells.len() + prefill > cap {
        return bad("C09", "capacity-exceeded", format!("{} tells were accepted by a mailbox of capacity {cap} with {prefill} slot(s) already taken while the actor was parked in a handler", ok_tells.len()));
    }
    if rt.block_on(async { tokio::time::timeout(Duration::from_secs(10), r.stop()).await }).map(|x| x.is_err()).unwrap_or(true) {
        return bad("C07", "did-not-end", "stop() failed or did not return within 10 s after the gate was opened".to_string());
    }
    drop(r);
    let Some(Ok(_)) = join(rt, jh) else { return bad("C07", "did-not-end", "stopped actor did not end within 10 s".to_string()) };
    let handled = sh.handled.lock().unwrap().clone();
    for id in pre.iter().chain(ok_tells.iter()) {
        if handled.iter().filter(|x| *x == id).count() != 1 {
            return bad("C01", "accepted-not-handled", format!("tell of message {id} returned Ok before stop(); it was handled {} times", handled.iter().filter(|x| *x == id).count()));
        }
    }
    for id in &rejected_tells {
        if handled.contains(id) {
            return bad("C01", "rejected-but-handled", format!("tell of message {id} returned Timeout yet the message was handled"));
        }
    }
    None
}

// ---------------------------------------------------------------------------------------------
// stop race
// ---------------------------------------------------------------------------------------------
/// One round = a batch of fresh actors attacked one after the other by the same n persistent threads
/// (a per-actor spinning rendezvous lines them up; no thread is spawned per attempt).
fn stop_race_round(rt: &tokio::runtime::Runtime, rng: &mut Rng, cfg: &mut String) -> Option<Bad> {
    const BATCH: usize = 64;
    let cap = [1usize, 2, 8, 32][rng.below(4) as usize];
    let n = 2 + rng.below(4) as usize;
    let early = rng.below(3) as u32;
    let blocking = rng.below(2) == 0;
    let jitter = rng.below(300) as u32;
    let mid_send = rng.below(2) == 0;
    *cfg = format!("stop:cap{cap}:n{n}:early{early}:{}:{}", if blocking { "blocking" } else { "async" }, if mid_send { "send-races-stop" } else { "stop-only" });
    let h = rt.handle().clone();
    let mut refs = vec![];
    let mut joins = vec![];
    let mut shs = vec![];
    let mut early_ids = vec![];
    for _ in 0..BATCH {
        let (r, jh, sh, _tx) = spawn_actor(rt, cap, 0, 0);
        let mut e = vec![];
        for i in 0..early.min(cap as u32) {
            if rt.block_on(r.tell(Item(10 + i))).is_ok() {
                e.push(10 + i);
            }
        }
        early_ids.push(e);
        refs.push(r);
        joins.push(jh);
        shs.push(sh);
    }
    let refs = Arc::new(refs);
    let arrive: Arc<Vec<AtomicUsize>> = Arc::new((0..BATCH).map(|_| AtomicUsize::new(0)).collect());
    let mut hs = vec![];
    for t in 0..n {
        let (refs, arrive, h2) = (refs.clone(), arrive.clone(), h.clone());
        hs.push(std::thread::spawn(move || {
            // per actor: did my stop() return Ok, and did I send afterwards
            let mut late = vec![false; BATCH];
            let mut rejected = vec![false; BATCH];
            for i in 0..BATCH {
                arrive[i].fetch_add(1, Ordering::AcqRel);
                let t0 = Instant::now();
                while arrive[i].load(Ordering::Acquire) < n {
                    std::hint::spin_loop();
                    if t0.elapsed() > Duration::from_secs(20) {
                        return (late, rejected);
                    }
                }
                for _ in 0..((t as u32 + i as u32) * jitter) % 200 {
                    std::hint::spin_loop();
                }
                let r2 = &refs[i];
                if t > 0 && mid_send {
                    // a send racing with the other threads' stop(): if it is rejected it must never be handled
                    let id = 200 + t as u32;
                    let o = if blocking { call(r2, &h2, Api::BTell, id, Duration::ZERO) } else { call(r2, &h2, Api::Tell, id, Duration::ZERO) };
                    if o != Outc::Ok {
                        rejected[i] = true;
                    }
                }
                let stopped = h2.block_on(r2.stop()).is_ok();
                if stopped && t > 0 {
                    let id = 100 + t as u32;
                    let _ = if blocking { call(r2, &h2, Api::BTell, id, Duration::ZERO) } else { call(r2, &h2, Api::Tell, id, Duration::ZERO) };
                    late[i] = true;
                }
            }
            (late, rejected)
        }));
    }
    let mut lates: Vec<Vec<bool>> = vec![];
    let mut rejs: Vec<Vec<bool>> = vec![];
    for hd in hs {
        let Ok((l, rj)) = hd.join() else { return bad("C17", "blocking-call-panicked", "a stopping thread panicked".to_string()) };
        lates.push(l);
        rejs.push(rj);
    }
    drop(refs);
    for (i, jh) in joins.into_iter().enumerate() {
        let Some(Ok(res)) = join(rt, jh) else { return bad("C07", "did-not-end", format!("{n} threads called stop(); the actor did not end within 10 s")) };
        let handled = shs[i].handled.lock().unwrap().clone();
        for t in 1..n {
            let id = 100 + t as u32;
            if rejs[t][i] && handled.contains(&(200 + t as u32)) {
                return bad("C01", "rejected-but-handled", format!("tell of message {} racing with stop() calls of other threads returned an error, yet the message was handled (capacity {cap}, {n} threads)", 200 + t));
            }
            if lates[t][i] && handled.contains(&id) {
                return bad("C02", "handled-after-stop-returned", format!("message {id} was sent by a thread only after its own stop() call had returned Ok ({n} threads stopping the same actor at the same instant, capacity {cap}), yet it was handled"));
            }
        }
        let got_early: Vec<u32> = handled.iter().copied().filter(|x| *x < 100).collect();
        if got_early != early_ids[i] {
            return bad("C02", "accepted-before-stop-not-handled", format!("tells {:?} returned Ok before any stop() was called; handled {got_early:?}", early_ids[i]));
        }
        let stops = shs[i].on_stop.lock().unwrap().clone();
        if stops != vec![false] && (!res.is_completed() || res.was_killed()) {
            also("C04", "on-stop-calls-wrong", format!("actor stopped by {n} threads at once, never killed: on_stop calls {stops:?}, expected exactly one with killed=false"));
        }
        if !res.is_completed() || res.was_killed() {
            return bad("C05", "result-not-graceful", format!("actor stopped by {n} threads at once, never killed: completed={} killed={}", res.is_completed(), res.was_killed()));
        }
        if stops != vec![false] {
            return bad("C04", "on-stop-calls-wrong", format!("actor stopped by {n} threads at once, never killed: on_stop calls {stops:?}, expected exactly one with killed=false"));
        }
    }
    None
}

// ---------------------------------------------------------------------------------------------
// ring / line of asks started at the same instant (deadlock-detection builds only)
// ---------------------------------------------------------------------------------------------
/// k actors; on `Start` actor i asks actor i+1 (ring: the last asks the first; line: the last asks
/// nobody). All k `Start` asks are issued at the same instant from k threads. Ring: whatever the
/// interleaving, nobody may be left waiting (C14) - and a self-ask (k = 1) must panic. Line: no
/// cycle can exist, so nobody may panic (C15). Afterwards the wait-for graph is empty (C15).
#[cfg(feature = "deadlock-detection")]
fn ring_round(rt: &tokio::runtime::Runtime, rng: &mut Rng, cfg: &mut String) -> Option<Bad> {
    let ring = rng.below(3) != 0;
    let k = if ring { 1 + rng.below(4) as usize } else { 2 + rng.below(3) as usize };
    let cap = [1usize, 2, 8][rng.below(3) as usize];
    *cfg = format!("{}:k{k}:cap{cap}", if ring { "ring" } else { "line" });
    let _ = &cfg;
    let mut actors = vec![];
    for _ in 0..k {
        actors.push(spawn_actor(rt, cap, 0, 0));
    }
    let meet = Arc::new(AtomicUsize::new(0));
    let lined_up = rng.below(4) != 0;
    for i in 0..k {
        let nxt = if ring || i + 1 < k { Some(ActorRef::downgrade(&actors[(i + 1) % k].0)) } else { None };
        *actors[i].2.next.lock().unwrap() = nxt;
        if lined_up {
            *actors[i].2.meet.lock().unwrap() = Some((meet.clone(), k));
        }
    }
    let h = rt.handle().clone();
    let go = Gate::new();
    let mut hs = vec![];
    for i in 0..k {
        let (r2, go, h2) = (actors[i].0.clone(), go.clone(), h.clone());
        hs.push(std::thread::spawn(move || {
            go.wait();
            h2.block_on(async { tokio::time::timeout(Duration::from_secs(10), r2.ask(Start)).await })
        }));
    }
    go.release(k);
    let mut hung = 0;
    let mut outcomes = vec![];
    for hd in hs {
        match hd.join() {
            Ok(Ok(r)) => outcomes.push(r.map_err(|e| format!("{e}"))),
            Ok(Err(_)) => hung += 1,
            Err(_) => return bad("C14", "client-panicked", "a thread asking from outside any actor panicked".to_string()),
        }
    }
    let mut panics = vec![];
    let mut refs = vec![];
    let mut joins = vec![];
    for (r, jh, sh, _tx) in actors {
        *sh.next.lock().unwrap() = None;
        let _ = r.kill();
        refs.push(r);
        joins.push(jh);
    }
    drop(refs);
    let mut stuck = 0;
    for jh in joins {
        match join(rt, jh) {
            None => stuck += 1,
            Some(Err(e)) => panics.push(e),
            Some(Ok(_)) => {}
        }
    }
    if ring && (hung > 0 || stuck > 0) {
        return bad("C14", "cycle-participant-left-waiting", format!("ring of {k} actors, each asking the next while handling a request, all started at the same instant: {hung} of the {k} outer asks had not returned after 10 s and {stuck} actor(s) did not end after kill() - an ask cycle went undetected"));
    }
    if ring && k == 1 && !outcomes.iter().any(|o| o.is_err()) {
        return bad("C14", "self-ask-not-detected", format!("an actor asked itself from a handler and the outer ask returned {outcomes:?}"));
    }
    if !ring {
        if hung > 0 || stuck > 0 {
            return bad("C03", "hang", format!("line of {k} actors: {hung} outer asks / {stuck} actors hung"));
        }
        if !panics.is_empty() || outcomes.iter().any(|o| o != &Ok(1) && o != &Ok(0)) {
            return bad("C15", "unjustified-deadlock-panic", format!("line of {k} actors (the last one asks nobody, so no cycle can exist), all started at the same instant: outer asks returned {outcomes:?}, actor panics {panics:?}"));
        }
    }
    #[cfg(rsactor_verif)]
    {
        // every ask has finished and every actor has ended: nothing may be left in the graph
        let t0 = Instant::now();
        loop {
            let e = rsactor::__verif_wait_for_edges();
            if e.is_empty() {
                break;
            }
            if t0.elapsed() > Duration::from_secs(2) {
                return bad("C15", "graph-residue", format!("wait-for graph still holds {e:?} after every ask of the round had finished and every actor had ended"));
            }
            std::thread::sleep(Duration::from_millis(1));
        }
    }
    None
}

/// A asks B from a handler; B tells itself `CallBack` and answers; B's `CallBack` then asks A.
/// A's ask has been answered before B's begins, so there is never a cycle and nobody may panic -
/// even while other threads keep the wait-for graph (and its lock) busy with asks of their own.
#[cfg(feature = "deadlock-detection")]
fn callback_round(rt: &tokio::runtime::Runtime, rng: &mut Rng, cfg: &mut String) -> Option<Bad> {
    let noise_pairs = rng.below(4) as usize;
    let iters = 5 + rng.below(30) as u32;
    let cap = [2usize, 8][rng.below(2) as usize];
    *cfg = format!("callback:noise{noise_pairs}:iters{iters}:cap{cap}");
    let a = spawn_actor(rt, cap, 0, 0);
    let b = spawn_actor(rt, cap, 0, 0);
    *a.2.next.lock().unwrap() = Some(ActorRef::downgrade(&b.0));
    *b.2.next.lock().unwrap() = Some(ActorRef::downgrade(&a.0));
    // background load: pairs N1 -> N2, N1 loops asks from a handler
    let mut noise = vec![];
    let mut noise_asks = vec![];
    for _ in 0..noise_pairs {
        let n1 = spawn_actor(rt, 8, 0, 0);
        let n2 = spawn_actor(rt, 8, 0, 0);
        *n1.2.next.lock().unwrap() = Some(ActorRef::downgrade(&n2.0));
        let r1 = n1.0.clone();
        noise_asks.push(rt.spawn(async move { r1.ask(Loop(iters * 40)).await }));
        noise.push(n1);
        noise.push(n2);
    }
    let mut failure = None;
    for i in 0..iters {
        match rt.block_on(async { tokio::time::timeout(Duration::from_secs(10), a.0.ask(StartServe)).await }) {
            Ok(Ok(1)) => {}
            other => {
                failure = Some(format!("iteration {i}: the outer ask returned {other:?}"));
                break;
            }
        }
        let t0 = Instant::now();
        while b.2.callbacks.lock().unwrap().len() < (i + 1) as usize {
            if t0.elapsed() > Duration::from_secs(10) || !b.0.is_alive() {
                failure = Some(format!("iteration {i}: B's CallBack handler did not finish (B alive: {})", b.0.is_alive()));
                break;
            }
            std::thread::yield_now();
        }
        if failure.is_some() {
            break;
        }
        if b.2.callbacks.lock().unwrap().last() != Some(&1) {
            failure = Some(format!("iteration {i}: B's ask to A ended as {:?}", b.2.callbacks.lock().unwrap().last()));
            break;
        }
    }
    for h in noise_asks {
        let _ = rt.block_on(async { tokio::time::timeout(Duration::from_secs(20), h).await });
    }
    let mut panics = vec![];
    let mut joins = vec![];
    for (r, jh, sh, _tx) in [a, b].into_iter().chain(noise.into_iter()) {
        *sh.next.lock().unwrap() = None;
        let _ = r.kill();
        joins.push(jh);
    }
    for jh in joins {
        if let Some(Err(e)) = join(rt, jh) {
            panics.push(e);
        }
    }
    if failure.is_some() || !panics.is_empty() {
        return bad("C15", "unjustified-deadlock-panic", format!("A asks B, B answers and only then (from its next message) asks A - no two asks are ever in flight against each other; {noise_pairs} other pair(s) of actors were asking each other on other threads. {} Actor panics: {panics:?}", failure.unwrap_or_default()));
    }
    None
}

#[cfg(not(feature = "deadlock-detection"))]
fn callback_round(_rt: &tokio::runtime::Runtime, _rng: &mut Rng, cfg: &mut String) -> Option<Bad> {
    *cfg = "callback:skipped-without-deadlock-detection".into();
    None
}

#[cfg(not(feature = "deadlock-detection"))]
fn ring_round(_rt: &tokio::runtime::Runtime, _rng: &mut Rng, cfg: &mut String) -> Option<Bad> {
    *cfg = "ring:skipped-without-deadlock-detection".into();
    None
}

// ---------------------------------------------------------------------------------------------
// hot loop of timed blocking calls against an actor that answers at once
// ---------------------------------------------------------------------------------------------
/// 2-4 threads keep calling blocking_ask / blocking_tell with a 20 s timeout (or the async timeout
/// variants through block_on) on a live actor whose handler returns immediately. Every call
/// completes within microseconds, so none may report Timeout.
fn hot_round(rt: &tokio::runtime::Runtime, rng: &mut Rng, cfg: &mut String) -> Option<Bad> {
    let threads = 2 + rng.below(3) as usize;
    let calls = 100 + rng.below(300) as u32;
    let cap = [1usize, 4, 32][rng.below(3) as usize];
    let shared_actor = rng.below(2) == 0;
    let apis: Vec<Api> = (0..threads).map(|_| TIMED_APIS[rng.below(TIMED_APIS.len() as u64) as usize]).collect();
    *cfg = format!("hot:threads{threads}:calls{calls}:cap{cap}:{}", if shared_actor { "one-actor" } else { "actor-per-thread" });
    let actors: Vec<_> = (0..if shared_actor { 1 } else { threads }).map(|_| spawn_actor(rt, cap, 0, 0)).collect();
    let h = rt.handle().clone();
    let go = Gate::new();
    let mut hs = vec![];
    for t in 0..threads {
        let (r2, go, h2, api) = (actors[if shared_actor { 0 } else { t }].0.clone(), go.clone(), h.clone(), apis[t]);
        hs.push(std::thread::spawn(move || {
            go.wait();
            for i in 0..calls {
                let id = 1000 * (t as u32 + 1) + i;
                let b = Instant::now();
                let o = call(&r2, &h2, api, id, Duration::from_secs(20));
                let el = b.elapsed();
                let fine = match (&o, is_tell(api)) {
                    (Outc::Ok, true) => true,
                    (Outc::Reply(v), false) => *v == reply_of(id),
                    _ => false,
                };
                if !fine {
                    return Err((api, id, o, el));
                }
            }
            Ok(())
        }));
    }
    go.release(threads);
    let mut first = None;
    for hd in hs {
        match hd.join() {
            Ok(Ok(())) => {}
            Ok(Err(x)) => first = first.or(Some(x)),
            Err(_) => return bad("C17", "blocking-call-panicked", "a caller thread panicked".to_string()),
        }
    }
    for (r, jh, _, _) in actors {
        let _ = rt.block_on(r.stop());
        drop(r);
        let _ = join(rt, jh);
    }
    if let Some((api, id, o, el)) = first {
        let (p, kind) = match o {
            Outc::Timeout => ("C10", "timeout-although-completed"),
            Outc::Reply(_) => ("C03", "wrong-reply"),
            _ => ("C17", "send-failed-on-live-actor"),
        };
        return bad(p, kind, format!("{api:?} of message {id} with a 20 s timeout, against a live actor whose handler returns at once ({threads} threads calling in a loop), returned {o:?} after {el:?}"));
    }
    None
}

// ---------------------------------------------------------------------------------------------
// photo finish: replies arriving around the deadline of ask_with_timeout (test-utils builds)
// ---------------------------------------------------------------------------------------------
/// 2-8 caller threads, each with its own actor, issue ask_with_timeout calls whose handler stays
/// busy for the timeout plus or minus a swept skew, so that the reply and the timer race. Whatever
/// the outcome of each call, the dead-letter counter must have advanced by exactly the number of
/// calls that returned an error: a call that returns Ok records nothing.
#[cfg(feature = "test-utils")]
fn photo_round(rt: &tokio::runtime::Runtime, rng: &mut Rng, cfg: &mut String) -> Option<Bad> {
    let pairs = 2 + rng.below(7) as usize;
    let per = 4 + rng.below(12) as u32;
    let t_ms = [1u64, 2, 3][rng.below(3) as usize];
    let spread = [50u64, 200, 600][rng.below(3) as usize];
    *cfg = format!("photo:pairs{pairs}:per{per}:t{t_ms}ms:spread{spread}us");
    let actors: Vec<_> = (0..pairs).map(|_| spawn_actor(rt, 4, 0, 0)).collect();
    let before = rsactor::dead_letter_count();
    let h = rt.handle().clone();
    let go = Gate::new();
    let mut hs = vec![];
    for (p, (r, _, _, _)) in actors.iter().enumerate() {
        let (r2, go, h2) = (r.clone(), go.clone(), h.clone());
        let mut x = Rng::new(rng.below(u32::MAX as u64) + p as u64);
        hs.push(std::thread::spawn(move || {
            go.wait();
            let (mut ok, mut err, mut other) = (0u64, 0u64, vec![]);
            for _ in 0..per {
                let busy = (t_ms * 1000 + x.below(2 * spread + 1)).saturating_sub(spread);
                match h2.block_on(r2.ask_with_timeout(Work(busy), Duration::from_millis(t_ms))) {
                    Ok(_) => ok += 1,
                    Err(e) if e.is_retryable() => err += 1,
                    Err(e) => {
                        err += 1;
                        other.push(format!("{e}"));
                    }
                }
                // let the (possibly still busy) handler finish so that the next call starts clean
                let _ = h2.block_on(r2.ask(Work(0)));
            }
            (ok, err, other)
        }));
    }
    go.release(pairs);
    let (mut ok, mut err) = (0, 0);
    for hd in hs {
        match hd.join() {
            Ok((o, e, other)) => {
                ok += o;
                err += e;
                if !other.is_empty() {
                    return bad("C10", "wrong-result", format!("ask_with_timeout on a live actor failed with something other than Timeout: {other:?}"));
                }
            }
            Err(_) => return bad("C13", "caller-panicked", "a caller thread panicked".to_string()),
        }
    }
    let after = rsactor::dead_letter_count();
    for (r, jh, _, _) in actors {
        let _ = rt.block_on(r.stop());
        drop(r);
        let _ = join(rt, jh);
    }
    if after - before != err {
        return bad("C13", "counter-mismatch", format!("{pairs} threads x {per} ask_with_timeout({t_ms} ms) calls whose handlers finish within {spread} us of the deadline: {ok} returned Ok and {err} returned an error, but dead_letter_count() advanced by {}", after - before));
    }
    None
}

#[cfg(not(feature = "test-utils"))]
fn photo_round(_rt: &tokio::runtime::Runtime, _rng: &mut Rng, cfg: &mut String) -> Option<Bad> {
    *cfg = "photo:skipped-without-test-utils".into();
    None
}

// ---------------------------------------------------------------------------------------------
// on_run is re-armed after every message
// ---------------------------------------------------------------------------------------------
/// The actor's on_run sleeps 1 ms, counts a tick and returns Ok(true). Messages arrive one at a
/// time from outside the runtime (blocking_tell from this OS thread, or a tell driven by block_on);
/// after each of them, with the mailbox empty again and nothing else going on, on_run must be run
/// again: the tick counter has to advance by 2 within 5 s (it normally takes 2 ms).
fn rearm_round(rt: &tokio::runtime::Runtime, rng: &mut Rng, cfg: &mut String) -> Option<Bad> {
    let cap = [1usize, 2, 8, 64][rng.below(4) as usize];
    // back-to-back: the next message is sent the instant the previous one has been handled, i.e.
    // just as the actor goes idle again; otherwise two ticks are awaited between messages
    let back_to_back = rng.below(2) == 0;
    let msgs = if back_to_back { 50 + rng.below(200) as u32 } else { 5 + rng.below(16) as u32 };
    let blocking = rng.below(4) != 0;
    *cfg = format!("rearm:cap{cap}:msgs{msgs}:{}:{}", if blocking { "blocking" } else { "async" }, if back_to_back { "back-to-back" } else { "spaced" });
    let (r, jh, sh, _tx) = spawn_actor(rt, cap, 2, 0);
    let h = rt.handle().clone();
    for i in 0..msgs {
        let o = call(&r, &h, if blocking { Api::BTell } else { Api::Tell }, 10 + i, Duration::ZERO);
        if o != Outc::Ok {
            return bad("C17", "send-failed-on-live-actor", format!("tell {i} to a live actor returned {o:?}"));
        }
        let t0 = Instant::now();
        let ticks_at_accept = sh.ticks.load(Ordering::Acquire);
        // the message is handled first (C08), then the actor is idle again
        while !sh.handled.lock().unwrap().contains(&(10 + i)) {
            // the tell has returned, so the message is waiting in the mailbox: on_run (1 ms per
            // invocation) must not keep completing while it waits (one completion may overlap)
            let now = sh.ticks.load(Ordering::Acquire);
            if now >= ticks_at_accept + 4 && !sh.handled.lock().unwrap().contains(&(10 + i)) {
                return bad("C08", "on-run-while-message-waiting", format!("message {i} of {msgs} ({}, mailbox capacity {cap}) had been accepted (the call had returned Ok) and was still unhandled while on_run completed {} more times", if blocking { "blocking_tell from an OS thread" } else { "tell" }, now - ticks_at_accept));
            }
            if t0.elapsed() > Duration::from_secs(5) {
                return bad("C01", "accepted-not-handled", format!("tell {i} returned Ok but the message was not handled within 5 s by an actor that is only ticking"));
            }
            if back_to_back {
                std::hint::spin_loop();
            } else {
                std::thread::sleep(Duration::from_micros(50));
            }
        }
        if back_to_back && i + 1 < msgs {
            continue;
        }
        let base = sh.ticks.load(Ordering::Acquire);
        while sh.ticks.load(Ordering::Acquire) < base + 2 {
            if t0.elapsed() > Duration::from_secs(10) {
                return bad("C08", "on-run-not-rearmed", format!("on_run returned Ok(true) every time; after message {i} of {msgs} ({}, mailbox capacity {cap}) had been handled the mailbox was empty and no kill pending, yet on_run completed only {} more time(s) in 10 s (it sleeps 1 ms)", if blocking { "blocking_tell from an OS thread" } else { "tell" }, sh.ticks.load(Ordering::Acquire) - base));
            }
            std::thread::sleep(Duration::from_micros(100));
        }
    }
    let _ = rt.block_on(r.stop());
    drop(r);
    if join(rt, jh).is_none() {
        return bad("C07", "did-not-end", "stopped ticking actor did not end within 10 s".to_string());
    }
    None
}

// ---------------------------------------------------------------------------------------------
// weak handles (typed and type-erased) never pin the actor
// ---------------------------------------------------------------------------------------------
/// The harness holds the only strong reference of an idle actor that was never sent a message.
/// 1-3 threads hammer the non-upgrading operations (is_alive, identity, clone) of a weak handle -
/// the typed ActorWeak or one of the three type-erased weak trait objects - while the harness drops
/// the strong reference and at once tries to upgrade: that must fail, and the actor must end
/// gracefully, whichever kind of weak handle is being used elsewhere.
fn weakpin_round(rt: &tokio::runtime::Runtime, rng: &mut Rng, cfg: &mut String) -> Option<Bad> {
    use rsactor::{WeakActorControl, WeakAskHandler, WeakTellHandler};
    // forms 4..7: the same handles, but the threads hammer upgrade() itself (which may legitimately
    // hold the actor for an instant, so only "never panics, right identity, the actor ends" is checked)
    let form = rng.below(8) as u8;
    let upgrading = form >= 4;
    let form = form % 4;
    let threads = 1 + rng.below(3) as usize;
    let run_mode = rng.below(2) as u8;
    let form_name = ["ActorWeak", "Box<dyn WeakActorControl>", "Box<dyn WeakTellHandler>", "Box<dyn WeakAskHandler>"][form as usize];
    *cfg = format!("weakpin:form{form}:{}:threads{threads}:run{run_mode}", if upgrading { "upgrade" } else { "observe" });
    let (r, jh, sh, _tx) = spawn_actor(rt, 2, run_mode, 0);
    let t0 = Instant::now();
    while !sh.ran.load(Ordering::Acquire) {
        if t0.elapsed() > Duration::from_secs(10) {
            return bad("C08", "on-run-never-ran", "on_run was not invoked within 10 s on an idle actor".to_string());
        }
        std::thread::yield_now();
    }
    let weak = ActorRef::downgrade(&r);
    let ident = r.identity();
    let stop = Arc::new(AtomicBool::new(false));
    // set just before the harness drops its reference: a typed upgrade that succeeds after that
    // instant is kept, and the actor has to stay alive for as long as it is held
    let dropping = Arc::new(AtomicBool::new(false));
    let go = Gate::new();
    let mut hs = vec![];
    for _ in 0..threads {
        let (w, stop, go) = (weak.clone(), stop.clone(), go.clone());
        let dropping = dropping.clone();
        hs.push(std::thread::spawn(move || -> Result<Option<ActorRef<RaceActor>>, String> {
            let ctl: Box<dyn WeakActorControl> = (&w).into();
            let th: Box<dyn WeakTellHandler<Item>> = (&w).into();
            let ah: Box<dyn WeakAskHandler<Item, u64>> = (&w).into();
            go.wait();
            while !stop.load(Ordering::Acquire) {
                if upgrading && form == 0 {
                    if let Some(strong) = w.upgrade() {
                        if strong.identity() != ident {
                            return Err(format!("an upgraded handle reports identity {}, the actor is {ident}", strong.identity()));
                        }
                        if dropping.load(Ordering::Acquire) {
                            return Ok(Some(strong));
                        }
                    }
                    continue;
                }
                if upgrading {
                    let id = match form {
                        0 => w.upgrade().map(|r| r.identity()),
                        1 => ctl.upgrade().map(|c| c.identity()),
                        2 => th.upgrade().map(|t| t.as_control().identity()),
                        _ => ah.upgrade().map(|a| a.as_control().identity()),
                    };
                    if id.map(|i| i != ident).unwrap_or(false) {
                        return Err(format!("an upgraded handle reports identity {id:?}, the actor is {ident}"));
                    }
                    continue;
                }
                let id = match form {
                    0 => {
                        let _ = w.is_alive();
                        let _ = w.clone();
                        w.identity()
                    }
                    1 => {
                        let _ = ctl.is_alive();
                        let _ = ctl.clone_boxed();
                        ctl.identity()
                    }
                    2 => {
                        let _ = th.as_weak_control().is_alive();
                        let _ = th.clone_boxed();
                        th.as_weak_control().identity()
                    }
                    _ => {
                        let _ = ah.as_weak_control().is_alive();
                        let _ = ah.clone_boxed();
                        ah.as_weak_control().identity()
                    }
                };
                if id != ident {
                    return Err(format!("a weak handle reports identity {id}, the actor is {ident}"));
                }
            }
            Ok(None)
        }));
    }
    go.release(threads);
    for _ in 0..rng.below(2000) {
        std::hint::spin_loop();
    }
    dropping.store(true, Ordering::Release);
    drop(r);
    let up = std::panic::catch_unwind(std::panic::AssertUnwindSafe(|| weak.upgrade()));
    let (pinned, own_panic) = match up {
        Ok(u) => (u.is_some(), false),
        Err(_) => (false, true),
    };
    stop.store(true, Ordering::Release);
    if own_panic {
        for h in hs {
            let _ = h.join();
        }
        return bad("C11", "weak-handle-panicked", format!("ActorWeak::upgrade() panicked right after the last strong reference had been dropped, while {threads} other thread(s) were using a {form_name}"));
    }
    let mut kept = vec![];
    for h in hs {
        match h.join() {
            Ok(Ok(None)) => {}
            Ok(Ok(Some(k))) => kept.push(k),
            Ok(Err(e)) => return bad("C11", "identity-mismatch", e),
            Err(_) => return bad(if form == 0 { "C11" } else { "C16" }, "weak-handle-panicked", format!("a thread calling {} on a {form_name} panicked while the last strong reference was being dropped on another thread", if upgrading { "upgrade()" } else { "is_alive / identity / clone" })),
        }
    }
    if let Some(k) = kept.first() {
        // a strong reference obtained by upgrade() while the harness was dropping its own: the actor
        // must stay alive and serving for as long as it is held (nobody stopped or killed it)
        let answer = rt.block_on(async { tokio::time::timeout(Duration::from_secs(10), k.ask(Item(7))).await });
        let stops = sh.on_stop.lock().unwrap().clone();
        if !matches!(answer, Ok(Ok(v)) if v == reply_of(7)) || !stops.is_empty() || jh.is_finished() {
            return bad("C07", "ended-while-referenced", format!("a strong reference returned by ActorWeak::upgrade() (obtained on another thread while the previous last reference was being dropped) is held and nobody called stop() or kill(), yet: ask through it -> {answer:?}, on_stop calls so far {stops:?}, JoinHandle finished: {}", jh.is_finished()));
        }
    }
    drop(kept);
    if pinned && !upgrading {
        return bad(if form == 0 { "C11" } else { "C16" }, "weak-handle-pins-actor", format!("the only strong reference of an idle actor (no message ever sent, on_start over) was dropped while {threads} other thread(s) were calling is_alive / identity / clone on a {form_name}; upgrade() right afterwards still returned a live reference - something other than a strong handle was keeping the actor alive"));
    }
    match join(rt, jh) {
        Some(Ok(res)) => {
            let stops = sh.on_stop.lock().unwrap().clone();
            if !res.is_completed() || res.was_killed() {
                return bad("C05", "result-not-graceful", format!("unreferenced actor, never killed: completed={} killed={}", res.is_completed(), res.was_killed()));
            }
            if stops != vec![false] {
                return bad("C04", "on-stop-calls-wrong", format!("unreferenced actor, never killed: on_stop calls {stops:?}"));
            }
        }
        _ => return bad("C07", "did-not-end", format!("the only strong reference was dropped ({form_name} handles in use on {threads} other thread(s)); the actor had not ended 10 s later")),
    }
    None
}

// ---------------------------------------------------------------------------------------------
// metrics read from other threads while the actor records (metrics builds only)
// ---------------------------------------------------------------------------------------------
/// 1-6 reader threads hammer the snapshot and the accessors while the actor handles 1-6 `Work`
/// messages of generated lengths (the slowest one anywhere in the sequence). Readers: the count
/// never decreases. At quiescence (actor stopped and joined, readers stopped): count = handlers
/// entered, avg <= max, max >= the longest time measured inside a handler, snapshot = accessors,
/// and the same values through a clone and a weak-upgraded handle.
#[cfg(feature = "metrics")]
fn metrics_round(rt: &tokio::runtime::Runtime, rng: &mut Rng, cfg: &mut String) -> Option<Bad> {
    let readers = 1 + rng.below(6) as usize;
    let msgs = 1 + rng.below(6) as usize;
    let slow_at = rng.below(msgs as u64) as usize;
    let slow_us = [300u64, 1000, 3000][rng.below(3) as usize];
    let lens: Vec<u64> = (0..msgs).map(|i| if i == slow_at { slow_us } else { rng.below(slow_us / 3 + 1) }).collect();
    *cfg = format!("metrics:readers{readers}:msgs{msgs}:slow{slow_us}us@{slow_at}");
    let (r, jh, sh, _tx) = spawn_actor(rt, 8, 0, 0);
    let stop = Arc::new(AtomicBool::new(false));
    let go = Gate::new();
    let mut hs = vec![];
    for _ in 0..readers {
        let (r2, stop, go) = (r.clone(), stop.clone(), go.clone());
        hs.push(std::thread::spawn(move || {
            go.wait();
            let mut last = 0u64;
            let mut reads = 0u64;
            while !stop.load(Ordering::Acquire) {
                let s = r2.metrics();
                let c = r2.message_count();
                let _ = (r2.avg_processing_time(), r2.max_processing_time());
                reads += 1;
                for v in [s.message_count, c] {
                    if v < last {
                        return Err(format!("message_count went from {last} to {v} as seen by one reader thread"));
                    }
                    last = v;
                }
            }
            Ok(reads)
        }));
    }
    go.release(readers);
    for l in &lens {
        match rt.block_on(r.ask(Work(*l))) {
            Ok(_) => {}
            Err(e) => return bad("C03", "ask-failed-on-live-actor", format!("{e}")),
        }
    }
    let weak = ActorRef::downgrade(&r);
    let _ = rt.block_on(r.stop());
    let joined = join(rt, jh);
    stop.store(true, Ordering::Release);
    let mut total_reads = 0;
    for h in hs {
        match h.join() {
            Ok(Ok(n)) => total_reads += n,
            Ok(Err(e)) => return bad("C20", "message-count-decreased", e),
            Err(_) => return bad("C20", "metrics-read-panicked", "a thread reading metrics panicked".to_string()),
        }
    }
    let _ = total_reads;
    if !matches!(joined, Some(Ok(_))) {
        return bad("C07", "did-not-end", "stopped actor did not end".to_string());
    }
    let inner = sh.max_inner_ns.load(Ordering::Acquire);
    let via: Vec<(&str, Option<ActorRef<RaceActor>>)> = vec![("the original handle", Some(r.clone())), ("a clone", Some(r.clone())), ("a weak-upgraded handle", weak.upgrade())];
    let mut first: Option<(u64, u128, u128)> = None;
    for (name, hd) in via {
        let Some(hd) = hd else { return bad("C20", "metrics-unreadable-after-end", format!("{name} could not be obtained after the actor ended although a strong handle is held")) };
        let s = hd.metrics();
        let (c, avg, max) = (hd.message_count(), hd.avg_processing_time().as_nanos(), hd.max_processing_time().as_nanos());
        let ctx = format!("{readers} reader thread(s), handlers of {lens:?} us, read through {name} after the actor ended");
        if c != msgs as u64 {
            return bad("C20", "message-count-wrong", format!("message_count={c}, handlers entered={msgs} ({ctx})"));
        }
        if avg > max {
            return bad("C20", "avg-above-max", format!("avg_processing_time {avg} ns > max_processing_time {max} ns ({ctx})"));
        }
        if max < inner as u128 {
            return bad("C20", "max-below-measured", format!("max_processing_time {max} ns < {inner} ns measured inside a handler ({ctx})"));
        }
        if s.message_count != c || s.avg_processing_time.as_nanos() != avg || s.max_processing_time.as_nanos() != max {
            return bad("C20", "snapshot-disagrees", format!("snapshot ({}, {} ns, {} ns) vs accessors ({c}, {avg} ns, {max} ns) ({ctx})", s.message_count, s.avg_processing_time.as_nanos(), s.max_processing_time.as_nanos()));
        }
        match first {
            None => first = Some((c, avg, max)),
            Some(f) if f != (c, avg, max) => return bad("C20", "handles-disagree", format!("{name} reports ({c}, {avg}, {max}), the original handle {f:?}")),
            _ => {}
        }
    }
    None
}

#[cfg(not(feature = "metrics"))]
fn metrics_round(_rt: &tokio::runtime::Runtime, _rng: &mut Rng, cfg: &mut String) -> Option<Bad> {
    *cfg = "metrics:skipped-without-metrics-feature".into();
    None
}

// ---------------------------------------------------------------------------------------------
// driver
// ---------------------------------------------------------------------------------------------
pub const KINDS: [&str; 13] = ["drop", "burst", "parked", "stop", "ring", "metrics", "weakpin", "rearm", "killonly", "callback", "photo", "hot", "killidle"];

/// Which experiments the check of a property runs, and which clauses (properties) it reports: a
/// round that breaks a clause of some *other* property is left to that property's own check.
pub fn kinds_for(prop: &str) -> &'static [&'static str] {
    match prop {
        "C01" => &["burst", "parked", "drop", "stop"],
        "C02" => &["stop", "burst"],
        "C04" | "C05" => &["drop", "stop", "killonly"],
        "C06" => &["killonly", "killidle"],
        "C07" => &["drop", "stop", "weakpin"],
        "C11" | "C16" => &["weakpin"],
        "C08" => &["rearm"],
        "C09" => &["parked", "burst"],
        "C10" => &["parked", "hot"],
        "C13" => &["photo"],
        "C14" => &["ring"],
        "C15" => &["ring", "callback"],
        "C17" => &["burst", "parked", "hot"],
        "C20" => &["metrics"],
        _ => &[],
    }
}

fn reports(host: &str, clause: &str) -> bool {
    host == clause || (host == "C17" && matches!(clause, "C01" | "C02" | "C03" | "C09" | "C10")) || (host == "C07" && matches!(clause, "C01" | "C04" | "C05" | "C11" | "C16"))
        || (host == "C16" && clause == "C11")
}

type Sink<'a> = &'a dyn Fn(&str, &str, &str, &str, serde_json::Value) -> String;

fn run_kind(prop: &str, kind: &'static str, rng_seed: u64, rounds: u32, replay_out: &str, part: &mut Part, write_replay: Sink) -> i32 {
    // panics inside actor tasks (deadlock reports) or inside the experiment's own threads (a
    // panicking API call is what some rounds look for) are observed through join handles; the
    // harness-wide hook, which treats a panic outside a simulated case as fatal, must not see them
    std::panic::set_hook(Box::new(|_| {}));
    let rt = tokio::runtime::Builder::new_multi_thread().worker_threads(6).enable_time().build().expect("runtime");
    let mut rng = Rng::new(rng_seed);
    for _ in 0..rounds {
        let mut cfg = String::new();
        let b = match kind {
            "drop" => drop_race_round(&rt, &mut rng, &mut cfg),
            "burst" => burst_round(&rt, &mut rng, &mut cfg),
            "parked" => parked_round(&rt, &mut rng, &mut cfg),
            "ring" => ring_round(&rt, &mut rng, &mut cfg),
            "metrics" => metrics_round(&rt, &mut rng, &mut cfg),
            "weakpin" => weakpin_round(&rt, &mut rng, &mut cfg),
            "rearm" => rearm_round(&rt, &mut rng, &mut cfg),
            "killonly" => killonly_round(&rt, &mut rng, &mut cfg),
            "callback" => callback_round(&rt, &mut rng, &mut cfg),
            "photo" => photo_round(&rt, &mut rng, &mut cfg),
            "hot" => hot_round(&rt, &mut rng, &mut cfg),
            "killidle" => killidle_round(&rt, &mut rng, &mut cfg),
            _ => stop_race_round(&rt, &mut rng, &mut cfg),
        };
        part.evaluations += 1;
        if !part.nontrivial_hashes.contains(&cfg) {
            part.nontrivial_hashes.push(cfg.clone());
        }
        *part.labels.entry(format!("race_{kind}_rounds")).or_default() += 1;
        if part.samples.iter().filter(|s| s["race"]["kind"] == kind).count() < 2 {
            part.samples.push(serde_json::json!({"race": {"kind": kind, "configuration": cfg}}));
        }
        let extra: Vec<Bad> = ALSO.with(|a| a.borrow_mut().drain(..).collect());
        let b = match b {
            Some(b) if !reports(prop, b.prop) => extra.into_iter().find(|x| reports(prop, x.prop)).or(Some(b)),
            other => other,
        };
        if let Some(b) = b {
            if !reports(prop, b.prop) {
                // the tree is broken in a way another property's check reports; the rest of this
                // experiment would only wait out its slack round after round
                let n = part.labels.entry(format!("race_round_broke_{}_clause_left_to_its_own_check", b.prop)).or_default();
                *n += 1;
                if *n >= 20 {
                    break;
                }
                continue;
            }
            let detail = if b.prop == prop { b.detail.clone() } else { format!("[{} rule] {}", b.prop, b.detail) };
            let path = write_replay(replay_out, prop, b.kind, &detail, serde_json::json!({"race": {"kind": kind, "seed": rng_seed, "rounds": rounds}}));
            println!("VIOLATION property={prop} replay={path}");
            println!("  kind={} detail={detail}", b.kind);
            part.violations.push(serde_json::json!({"kind": b.kind, "detail": detail, "replay": path}));
            rt.shutdown_background();
            return 1;
        }
    }
    rt.shutdown_background();
    0
}

pub fn run(prop: &str, kinds: &[&'static str], seed: u64, rounds: u32, replay_out: &str, part: &mut Part, write_replay: Sink) -> i32 {
    crate::trace::set_current(None);
    for (ki, kind) in kinds.iter().enumerate() {
        let mult = match *kind {
            "drop" | "ring" | "killonly" => 10,
            "weakpin" => 20,
            "metrics" => 4,
            "stop" => 2,
            "burst" => 3,
            _ => 1,
        };
        let code = run_kind(prop, kind, seed.wrapping_add(ki as u64 * 7919), rounds * mult, replay_out, part, write_replay);
        if code != 0 {
            return code;
        }
    }
    0
}

pub fn replay(prop: &str, kind: &'static str, rng_seed: u64, rounds: u32, part: &mut Part, sink: Sink) -> i32 {
    crate::trace::set_current(None);
    run_kind(prop, kind, rng_seed, rounds, "", part, sink)
}
