//! ActorResult accessor laws (C05, second half): every query method and conversion must agree with
//! the variant's fields. The reference below is written from the field definitions and the
//! documentation of each accessor, independently of the implementation.

use crate::choices::Choices;
use rsactor::{Actor, ActorRef, ActorResult, FailurePhase};

/// Expected values of all non-consuming accessors, computed from the fields alone.
#[derive(Debug, PartialEq, Clone)]
pub struct Expect {
    pub is_completed: bool,
    pub is_failed: bool,
    pub was_killed: bool,
    pub stopped_normally: bool,
    pub is_startup_failed: bool,
    pub is_runtime_failed: bool,
    pub is_cleanup_failed: bool,
    pub is_stop_failed: bool,
    pub has_actor: bool,
}

pub fn expect(completed: bool, killed: bool, phase: Option<FailurePhase>, has_actor: bool) -> Expect {
    let failed = !completed;
    Expect {
        is_completed: completed,
        is_failed: failed,
        was_killed: killed,
        stopped_normally: completed && !killed,
        is_startup_failed: failed && phase == Some(FailurePhase::OnStart),
        is_runtime_failed: failed
            && (phase == Some(FailurePhase::OnRun) || phase == Some(FailurePhase::OnRunThenOnStop)),
        is_cleanup_failed: failed && phase == Some(FailurePhase::OnRunThenOnStop),
        is_stop_failed: failed && phase == Some(FailurePhase::OnStop),
        has_actor: completed || has_actor,
    }
}

pub fn observed<T: Actor>(r: &ActorResult<T>) -> Expect {
    Expect {
        is_completed: r.is_completed(),
        is_failed: r.is_failed(),
        was_killed: r.was_killed(),
        stopped_normally: r.stopped_normally(),
        is_startup_failed: r.is_startup_failed(),
        is_runtime_failed: r.is_runtime_failed(),
        is_cleanup_failed: r.is_cleanup_failed(),
        is_stop_failed: r.is_stop_failed(),
        has_actor: r.has_actor(),
    }
}

/// Non-consuming laws on a real result produced by a run.
pub fn check_real<T: Actor>(r: &ActorResult<T>) -> Vec<String> {
    let (completed, killed, phase, has_actor) = match r {
        ActorResult::Completed { killed, .. } => (true, *killed, None, true),
        ActorResult::Failed { actor, phase, killed, .. } => (false, *killed, Some(*phase), actor.is_some()),
    };
    let e = expect(completed, killed, phase, has_actor);
    let o = observed(r);
    let mut v = vec![];
    if e != o {
        v.push(format!("accessors disagree with fields: expected {e:?}, observed {o:?}"));
    }
    if r.actor().is_some() != e.has_actor {
        v.push(format!("actor() is_some={} but has_actor expected {}", r.actor().is_some(), e.has_actor));
    }
    if r.error().is_some() != !completed {
        v.push(format!("error() is_some={} on completed={completed}", r.error().is_some()));
    }
    v
}

// ---- generated / exhaustive laws on a payload-carrying dummy actor ----

#[derive(Debug, PartialEq, Clone)]
pub struct Dummy(pub u64);
impl Actor for Dummy {
    type Args = u64;
    type Error = u64;
    async fn on_start(a: u64, _r: &ActorRef<Self>) -> Result<Self, u64> {
        Ok(Dummy(a))
    }
}

#[derive(Debug, Clone, PartialEq, serde::Serialize)]
pub struct LawCase {
    pub completed: bool,
    pub killed: bool,
    pub phase: u8,
    pub has_actor: bool,
    pub actor_payload: u64,
    pub error_payload: u64,
}

pub fn phase_of(p: u8) -> FailurePhase {
    match p % 4 {
        0 => FailurePhase::OnStart,
        1 => FailurePhase::OnRun,
        2 => FailurePhase::OnStop,
        _ => FailurePhase::OnRunThenOnStop,
    }
}

pub fn build(c: &LawCase) -> ActorResult<Dummy> {
    if c.completed {
        ActorResult::Completed { actor: Dummy(c.actor_payload), killed: c.killed }
    } else {
        ActorResult::Failed {
            actor: if c.has_actor { Some(Dummy(c.actor_payload)) } else { None },
            error: c.error_payload,
            phase: phase_of(c.phase),
            killed: c.killed,
        }
    }
}

pub fn gen_case(ch: &mut dyn Choices) -> LawCase {
    LawCase {
        completed: ch.below(2) == 1,
        killed: ch.below(2) == 1,
        phase: ch.below(4) as u8,
        has_actor: ch.below(2) == 1,
        actor_payload: ch.below(u32::MAX) as u64 * 7919 + 1,
        error_payload: ch.below(u32::MAX) as u64 * 104729 + 3,
    }
}

/// All laws on one generated value. Returns violations.
pub fn check_case(c: &LawCase) -> Vec<String> {
    let mut v = vec![];
    let phase = if c.completed { None } else { Some(phase_of(c.phase)) };
    let e = expect(c.completed, c.killed, phase, c.has_actor);
    let r = build(c);
    let o = observed(&r);
    if e != o {
        v.push(format!("accessors: expected {e:?}, observed {o:?}"));
    }
    let exp_actor = if c.completed || c.has_actor { Some(Dummy(c.actor_payload)) } else { None };
    let exp_err = if c.completed { None } else { Some(c.error_payload) };
    if r.actor() != exp_actor.as_ref() {
        v.push(format!("actor(): {:?} vs {:?}", r.actor(), exp_actor));
    }
    if r.error() != exp_err.as_ref() {
        v.push(format!("error(): {:?} vs {:?}", r.error(), exp_err));
    }
    if build(c).into_actor() != exp_actor {
        v.push("into_actor() disagrees with fields".into());
    }
    if build(c).into_error() != exp_err {
        v.push("into_error() disagrees with fields".into());
    }
    let tr = build(c).to_result();
    let exp_tr: Result<Dummy, u64> =
        if c.completed { Ok(Dummy(c.actor_payload)) } else { Err(c.error_payload) };
    if tr != exp_tr {
        v.push(format!("to_result(): {tr:?} vs {exp_tr:?}"));
    }
    let tup: (Option<Dummy>, Option<u64>) = build(c).into();
    if tup != (exp_actor.clone(), exp_err) {
        v.push(format!("From<ActorResult> for tuple: {tup:?}"));
    }
    // Debug / Display must not panic (their wording is not part of the property)
    let _ = format!("{:?}", build(c));
    let _ = format!("{}", phase_of(c.phase));
    v
}

/// The finite part of the space (variant x killed x phase x has_actor), exhaustively.
pub fn exhaustive() -> (u64, Vec<(LawCase, Vec<String>)>) {
    let mut n = 0;
    let mut bad = vec![];
    for completed in [false, true] {
        for killed in [false, true] {
            for phase in 0..4u8 {
                for has_actor in [false, true] {
                    let c = LawCase {
                        completed,
                        killed,
                        phase,
                        has_actor,
                        actor_payload: 11 + phase as u64,
                        error_payload: 23 + phase as u64,
                    };
                    n += 1;
                    let v = check_case(&c);
                    if !v.is_empty() {
                        bad.push((c, v));
                    }
                }
            }
        }
    }
    (n, bad)
}
