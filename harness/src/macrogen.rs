//! C19: generated actor programs compiled against the real macros.
//!
//! A *program* is drawn from a grammar (actor shape x generics x derive/manual x handler list,
//! each handler = attribute x return-type spelling x message kind x parameter spelling). The
//! generator emits Rust source for a corpus crate; the corpus is compiled offline against the
//! tree under test and run; its observations are compared with an independent decision table.

use crate::choices::Choices;
use serde::{Deserialize, Serialize};

#[derive(Serialize, Deserialize, Clone, Copy, Debug, PartialEq, Eq, Hash)]
pub enum Shape {
    Named,
    Tuple,
    Unit,
    Enum,
}

#[derive(Serialize, Deserialize, Clone, Copy, Debug, PartialEq, Eq, Hash)]
pub enum Generics {
    None,
    /// one parameter, bounds inline
    OneInline,
    /// one parameter, bounds in a where clause
    OneWhere,
    /// two parameters
    Two,
}

#[derive(Serialize, Deserialize, Clone, Copy, Debug, PartialEq, Eq, Hash)]
pub enum Attr {
    Plain,
    Empty,
    ForceResult,
    NoLog,
}

#[derive(Serialize, Deserialize, Clone, Copy, Debug, PartialEq, Eq, Hash)]
pub enum Ret {
    Nothing,
    UnitTy,
    U32,
    Str,
    Tuple,
    Opt,
    VecU8,
    GenT,
    Res,
    StdRes,
    Anyhow,
    Alias,
}

#[derive(Serialize, Deserialize, Clone, Copy, Debug, PartialEq, Eq, Hash)]
pub enum MsgKind {
    Named,
    TupleS,
    Wrapped,
    Destructured,
    UnitMsg,
}

#[derive(Serialize, Deserialize, Clone, Debug, PartialEq)]
pub struct Handler {
    pub attr: Attr,
    pub ret: Ret,
    pub msg: MsgKind,
    /// 0: `_: &ActorRef<Self>`, 1: `_r: &rsactor::ActorRef<Self>`, 2: `actor_ref: &ActorRef<Self>`
    pub third: u8,
}

#[derive(Serialize, Deserialize, Clone, Debug, PartialEq)]
pub struct Prog {
    pub shape: Shape,
    pub generics: Generics,
    pub derive: bool,
    pub handlers: Vec<Handler>,
    pub extra_methods: bool,
    pub base: u32,
}

#[derive(Serialize, Deserialize, Clone, Copy, Debug, PartialEq, Eq, Hash)]
pub enum Neg {
    ResultAndNoLog,
    ResultWithoutReturn,
    UnknownOption,
    NameValue,
    NotAsync,
    TwoParams,
    FourParams,
    SharedSelf,
    ThirdByValue,
    ThirdNotActorRef,
    DeriveOnUnion,
}

pub const NEGS: [Neg; 11] = [
    Neg::ResultAndNoLog,
    Neg::ResultWithoutReturn,
    Neg::UnknownOption,
    Neg::NameValue,
    Neg::NotAsync,
    Neg::TwoParams,
    Neg::FourParams,
    Neg::SharedSelf,
    Neg::ThirdByValue,
    Neg::ThirdNotActorRef,
    Neg::DeriveOnUnion,
];

impl Neg {
    /// the text the macro documents / emits for this mistake
    pub fn expected_message(&self) -> &'static str {
        match self {
            Neg::ResultAndNoLog => "`result` and `no_log` are mutually exclusive",
            Neg::ResultWithoutReturn => "`#[handler(result)]` requires a return type",
            Neg::UnknownOption => "unknown handler option",
            Neg::NameValue => "expected `#[handler]`, `#[handler(result)]`, or `#[handler(no_log)]`",
            Neg::NotAsync => "must be async",
            Neg::TwoParams | Neg::FourParams => "must have exactly 3 parameters",
            Neg::SharedSelf => "First parameter must be '&mut self'",
            Neg::ThirdByValue | Neg::ThirdNotActorRef => "Third parameter must be",
            Neg::DeriveOnUnion => "Actor derive macro can only be used on structs and enums",
        }
    }
}

fn is_result_like(r: Ret) -> bool {
    matches!(r, Ret::Res | Ret::StdRes | Ret::Anyhow | Ret::Alias)
}

/// documented decision table: does a tell with this handler log an Err value?
pub fn logs_errors(h: &Handler) -> bool {
    match h.attr {
        Attr::NoLog => false,
        Attr::ForceResult => true,
        Attr::Plain | Attr::Empty => matches!(h.ret, Ret::Res | Ret::StdRes | Ret::Anyhow),
    }
}

pub fn gen_prog(ch: &mut dyn Choices) -> Prog {
    let shape = [Shape::Named, Shape::Tuple, Shape::Unit, Shape::Enum][ch.below(4) as usize];
    let generics = if shape == Shape::Unit { Generics::None } else { [Generics::None, Generics::OneInline, Generics::OneWhere, Generics::Two][ch.weighted(&[3, 2, 2, 1])] };
    let derive = !ch.chance(1, 4);
    let n = ch.range(1, 4);
    let mut handlers = vec![];
    for _ in 0..n {
        let mut ret = [Ret::U32, Ret::Nothing, Ret::UnitTy, Ret::Str, Ret::Tuple, Ret::Opt, Ret::VecU8, Ret::GenT, Ret::Res, Ret::StdRes, Ret::Anyhow, Ret::Alias][ch.weighted(&[2, 1, 1, 1, 1, 1, 1, 2, 3, 2, 2, 2])];
        if ret == Ret::GenT && generics == Generics::None {
            ret = Ret::U32;
        }
        let attr = if is_result_like(ret) {
            [Attr::Plain, Attr::Empty, Attr::ForceResult, Attr::NoLog][ch.weighted(&[3, 1, 3, 2])]
        } else {
            [Attr::Plain, Attr::Empty, Attr::NoLog][ch.weighted(&[4, 1, 2])]
        };
        let msg = if matches!(ret, Ret::Nothing | Ret::UnitTy) && ch.chance(1, 2) {
            MsgKind::UnitMsg
        } else {
            [MsgKind::Named, MsgKind::TupleS, MsgKind::Wrapped, MsgKind::Destructured][ch.below(4) as usize]
        };
        handlers.push(Handler { attr, ret, msg, third: ch.below(3) as u8 });
    }
    Prog { shape, generics, derive, handlers, extra_methods: ch.chance(1, 2), base: ch.range(0, 1000) }
}

fn gparams(g: Generics) -> (&'static str, &'static str, &'static str, &'static str) {
    // (decl on type, impl generics, type args, where clause)
    const B: &str = "Clone + std::fmt::Debug + PartialEq + Send + 'static";
    match g {
        Generics::None => ("", "", "", ""),
        Generics::OneInline => ("<T: Clone + std::fmt::Debug + PartialEq + Send + 'static>", "<T: Clone + std::fmt::Debug + PartialEq + Send + 'static>", "<T>", ""),
        Generics::OneWhere => ("<T>", "<T>", "<T>", "where T: Clone + std::fmt::Debug + PartialEq + Send + 'static"),
        Generics::Two => {
            let _ = B;
            ("<T, U>", "<T, U>", "<T, U>", "where T: Clone + std::fmt::Debug + PartialEq + Send + 'static, U: Default + Clone + std::fmt::Debug + PartialEq + Send + 'static")
        }
    }
}

fn concrete_args(g: Generics) -> &'static str {
    match g {
        Generics::None => "",
        Generics::OneInline | Generics::OneWhere => "<String>",
        Generics::Two => "<String, u8>",
    }
}

fn ret_spelling(r: Ret) -> &'static str {
    match r {
        Ret::Nothing => "",
        Ret::UnitTy => " -> ()",
        Ret::U32 => " -> u32",
        Ret::Str => " -> String",
        Ret::Tuple => " -> (u32, String)",
        Ret::Opt => " -> Option<u32>",
        Ret::VecU8 => " -> Vec<u8>",
        Ret::GenT => " -> T",
        Ret::Res => " -> Result<u32, String>",
        Ret::StdRes => " -> std::result::Result<u32, String>",
        Ret::Anyhow => " -> anyhow::Result<u32>",
        Ret::Alias => " -> MyRes",
    }
}

/// the Reply type spelled independently of the handler's own spelling (for a compile-time equality check)
fn canon_type(r: Ret) -> &'static str {
    match r {
        Ret::Nothing | Ret::UnitTy => "()",
        Ret::U32 => "u32",
        Ret::Str => "std::string::String",
        Ret::Tuple => "(u32, std::string::String)",
        Ret::Opt => "core::option::Option<u32>",
        Ret::VecU8 => "std::vec::Vec<u8>",
        Ret::GenT => "std::string::String",
        Ret::Res | Ret::StdRes | Ret::Alias => "core::result::Result<u32, std::string::String>",
        Ret::Anyhow => "core::result::Result<u32, anyhow::Error>",
    }
}

fn body(r: Ret) -> &'static str {
    match r {
        Ret::Nothing => "let _ = (v, fail, self.base());",
        Ret::UnitTy => "let _ = (v, fail, self.base()); ()",
        Ret::U32 => "let _ = fail; self.base() + v",
        Ret::Str => "let _ = fail; format!(\"s{}\", self.base() + v)",
        Ret::Tuple => "let _ = fail; (self.base() + v, \"t\".to_string())",
        Ret::Opt => "if fail { None } else { Some(self.base() + v) }",
        Ret::VecU8 => "let _ = fail; vec![(v % 251) as u8; 2]",
        Ret::GenT => "let _ = (v, fail); self.tval()",
        Ret::Res | Ret::StdRes | Ret::Alias => "if fail { Err(format!(\"e{}\", v)) } else { Ok(self.base() + v) }",
        Ret::Anyhow => "if fail { Err(anyhow::anyhow!(\"a{}\", v)) } else { Ok(self.base() + v) }",
    }
}

/// how the corpus renders a reply into a string
fn render(r: Ret) -> &'static str {
    match r {
        Ret::Anyhow => "match &r { Ok(x) => format!(\"Ok({})\", x), Err(e) => format!(\"Err({})\", e) }",
        _ => "format!(\"{:?}\", r)",
    }
}

/// what the decision table says the rendered reply must be
pub fn expected_reply(p: &Prog, h: &Handler, v: u32, fail: bool) -> String {
    let base = p.base;
    let (v, fail) = if h.msg == MsgKind::UnitMsg { (7, false) } else { (v, fail) };
    match h.ret {
        Ret::Nothing | Ret::UnitTy => "()".into(),
        Ret::U32 => format!("{}", base + v),
        Ret::Str => format!("{:?}", format!("s{}", base + v)),
        Ret::Tuple => format!("({}, \"t\")", base + v),
        Ret::Opt => {
            if fail {
                "None".into()
            } else {
                format!("Some({})", base + v)
            }
        }
        Ret::VecU8 => format!("{:?}", vec![(v % 251) as u8; 2]),
        Ret::GenT => "\"gen\"".into(),
        Ret::Res | Ret::StdRes | Ret::Alias => {
            if fail {
                format!("Err({:?})", format!("e{v}"))
            } else {
                format!("Ok({})", base + v)
            }
        }
        Ret::Anyhow => {
            if fail {
                format!("Err(a{v})")
            } else {
                format!("Ok({})", base + v)
            }
        }
    }
}

pub fn expected_error_display(h: &Handler, v: u32) -> String {
    match h.ret {
        Ret::Anyhow => format!("a{v}"),
        _ => format!("e{v}"),
    }
}

fn third(t: u8) -> &'static str {
    match t % 3 {
        0 => "_: &ActorRef<Self>",
        1 => "_r: &rsactor::ActorRef<Self>",
        _ => "actor_ref: &ActorRef<Self>",
    }
}

/// Emit module `p{i}` for a positive program.
pub fn emit(i: usize, p: &Prog) -> String {
    let (decl, implg, targs, wh) = gparams(p.generics);
    let has_t = p.generics != Generics::None;
    let has_u = p.generics == Generics::Two;
    let mut s = String::new();
    s.push_str(&format!("pub mod p{i} {{\n    #![allow(dead_code, unused_variables, clippy::all)]\n    use rsactor::{{Actor, ActorRef, message_handlers}};\n    use super::support::*;\n    pub type MyRes = Result<u32, String>;\n"));
    let derive = if p.derive { "#[derive(Actor, Debug, Clone, PartialEq)]" } else { "#[derive(Debug, Clone, PartialEq)]" };
    let tfield = if has_t { "T" } else { "()" };
    let ufield = if has_u { "U" } else { "()" };
    match p.shape {
        Shape::Named => s.push_str(&format!("    {derive}\n    pub struct A{decl} {wh} {{ pub base: u32, pub t: {tfield}, pub u: {ufield} }}\n")),
        Shape::Tuple => s.push_str(&format!("    {derive}\n    pub struct A{decl}(pub u32, pub {tfield}, pub {ufield}) {wh};\n")),
        Shape::Unit => s.push_str(&format!("    {derive}\n    pub struct A;\n")),
        Shape::Enum => s.push_str(&format!("    {derive}\n    pub enum A{decl} {wh} {{ Idle, Busy {{ base: u32, t: {tfield}, u: {ufield} }}, Other(u32) }}\n")),
    }
    if !p.derive {
        s.push_str(&format!(
            "    impl{implg} Actor for A{targs} {wh} {{\n        type Args = Self;\n        type Error = anyhow::Error;\n        async fn on_start(args: Self::Args, _r: &ActorRef<Self>) -> std::result::Result<Self, Self::Error> {{ Ok(args) }}\n    }}\n"
        ));
    }
    // plain impl with accessors (never touched by the macro)
    let base_expr = match p.shape {
        Shape::Named => "self.base".to_string(),
        Shape::Tuple => "self.0".to_string(),
        Shape::Unit => format!("{}", p.base),
        Shape::Enum => "match self { A::Busy { base, .. } => *base, _ => 0 }".to_string(),
    };
    let tval = if has_t {
        match p.shape {
            Shape::Named => "self.t.clone()",
            Shape::Tuple => "self.1.clone()",
            Shape::Enum => "match self { A::Busy { t, .. } => t.clone(), _ => unreachable!() }",
            Shape::Unit => "()",
        }
    } else {
        "()"
    };
    s.push_str(&format!("    impl{implg} A{targs} {wh} {{\n        fn base(&self) -> u32 {{ {base_expr} }}\n        fn tval(&self) -> {tfield} {{ {tval} }}\n    }}\n"));
    // messages
    for (j, h) in p.handlers.iter().enumerate() {
        match h.msg {
            MsgKind::Named => s.push_str(&format!("    pub struct M{j} {{ pub v: u32, pub fail: bool }}\n")),
            MsgKind::TupleS | MsgKind::Destructured => s.push_str(&format!("    pub struct M{j}(pub u32, pub bool);\n")),
            MsgKind::Wrapped => s.push_str(&format!("    pub struct P{j} {{ pub v: u32, pub fail: bool }}\n    pub type M{j} = Wrap<P{j}>;\n")),
            MsgKind::UnitMsg => s.push_str(&format!("    pub struct M{j};\n")),
        }
    }
    // handlers
    s.push_str(&format!("    #[message_handlers]\n    impl{implg} A{targs} {wh} {{\n"));
    for (j, h) in p.handlers.iter().enumerate() {
        let attr = match h.attr {
            Attr::Plain => "#[handler]",
            Attr::Empty => "#[handler()]",
            Attr::ForceResult => "#[handler(result)]",
            Attr::NoLog => "#[handler(no_log)]",
        };
        let (param, bind) = match h.msg {
            MsgKind::Named => (format!("msg: M{j}"), "let (v, fail) = (msg.v, msg.fail);".to_string()),
            MsgKind::TupleS => (format!("msg: M{j}"), "let (v, fail) = (msg.0, msg.1);".to_string()),
            MsgKind::Wrapped => (format!("msg: Wrap<P{j}>"), "let (v, fail) = (msg.0.v, msg.0.fail);".to_string()),
            MsgKind::Destructured => (format!("M{j}(v, fail): M{j}"), String::new()),
            MsgKind::UnitMsg => (format!("_msg: M{j}"), "let (v, fail) = (7u32, false);".to_string()),
        };
        if p.extra_methods && j == 0 {
            s.push_str("        fn helper(&self) -> u32 { self.base() + 1 }\n        async fn not_a_handler(&mut self, x: u32) -> u32 { x + self.helper() }\n");
        }
        s.push_str(&format!("        {attr}\n        async fn h{j}(&mut self, {param}, {}){} {{ {bind} {} }}\n", third(h.third), ret_spelling(h.ret), body(h.ret)));
    }
    s.push_str("    }\n");
    // Sync message: manual impl co-existing with the generated ones
    s.push_str(&format!(
        "    pub struct Sync;\n    impl{implg} rsactor::Message<Sync> for A{targs} {wh} {{\n        type Reply = u32;\n        async fn handle(&mut self, _m: Sync, _r: &ActorRef<Self>) -> u32 {{ 1 }}\n    }}\n"
    ));
    // runner
    let cargs = concrete_args(p.generics);
    let tinit = if has_t { "\"gen\".to_string()" } else { "()" };
    let uinit = if has_u { "0u8" } else { "()" };
    let init = match p.shape {
        Shape::Named => format!("A{} {{ base: {}, t: {tinit}, u: {uinit} }}", cargs.replace('<', "::<"), p.base),
        Shape::Tuple => format!("A{}({}, {tinit}, {uinit})", cargs.replace('<', "::<"), p.base),
        Shape::Unit => "A".to_string(),
        Shape::Enum => format!("A{}::Busy {{ base: {}, t: {tinit}, u: {uinit} }}", cargs.replace('<', "::<"), p.base),
    };
    s.push_str(&format!("    pub async fn run(out: &mut Vec<Obs>) {{\n        type X = A{cargs};\n        let initial: X = {init};\n"));
    if p.derive {
        s.push_str("        assert_derived::<X>();\n");
    }
    for (j, h) in p.handlers.iter().enumerate() {
        s.push_str(&format!("        assert_reply::<X, M{j}, {}>();\n", canon_type(h.ret)));
    }
    s.push_str("        let (r0, jh) = rsactor::spawn::<X>(initial.clone());\n");
    for (j, h) in p.handlers.iter().enumerate() {
        let inputs: &[(u32, bool)] = if h.msg == MsgKind::UnitMsg { &[(7, false)] } else { &[(3, false), (5, true)] };
        for (v, fail) in inputs {
            let mk = match h.msg {
                MsgKind::Named => format!("M{j} {{ v: {v}, fail: {fail} }}"),
                MsgKind::TupleS | MsgKind::Destructured => format!("M{j}({v}, {fail})"),
                MsgKind::Wrapped => format!("Wrap(P{j} {{ v: {v}, fail: {fail} }})"),
                MsgKind::UnitMsg => format!("M{j}"),
            };
            s.push_str(&format!(
                "        {{\n            let before = error_events();\n            let r = r0.ask({mk}).await.expect(\"ask\");\n            let rendered = {};\n            let _ = r0.ask(Sync).await;\n            out.push(Obs {{ prog: {i}, handler: {j}, path: \"ask\", v: {v}, fail: {fail}, reply: rendered, events: events_since(before) }});\n            let before = error_events();\n            r0.tell({mk}).await.expect(\"tell\");\n            let _ = r0.ask(Sync).await;\n            out.push(Obs {{ prog: {i}, handler: {j}, path: \"tell\", v: {v}, fail: {fail}, reply: String::new(), events: events_since(before) }});\n        }}\n",
                render(h.ret)
            ));
        }
    }
    s.push_str(&format!(
        "        r0.stop().await.expect(\"stop\");\n        let res = jh.await.expect(\"join\");\n        let same = res.actor() == Some(&initial);\n        out.push(Obs {{ prog: {i}, handler: 999, path: \"final\", v: 0, fail: false, reply: format!(\"completed={{}} same_instance={{}}\", res.is_completed(), same), events: vec![] }});\n    }}\n}}\n"
    ));
    s
}

pub const SUPPORT: &str = r#"
pub mod support {
    use std::sync::Mutex;
    use std::sync::atomic::{AtomicU64, Ordering};
    use tracing::field::{Field, Visit};
    use tracing::span::{Attributes, Id, Record};
    use tracing::{Event, Level, Metadata, Subscriber};

    pub struct Wrap<P>(pub P);

    #[derive(Debug)]
    pub struct Obs { pub prog: usize, pub handler: usize, pub path: &'static str, pub v: u32, pub fail: bool, pub reply: String, pub events: Vec<String> }

    pub fn assert_reply<A, M, R>() where A: rsactor::Message<M, Reply = R>, M: Send + 'static {}
    pub fn assert_derived<A>() where A: rsactor::Actor<Args = A, Error = std::convert::Infallible> {}

    static EVENTS: Mutex<Vec<String>> = Mutex::new(Vec::new());
    pub fn error_events() -> usize { EVENTS.lock().unwrap().len() }
    pub fn events_since(n: usize) -> Vec<String> { EVENTS.lock().unwrap()[n..].to_vec() }

    struct V(String);
    impl Visit for V {
        fn record_debug(&mut self, f: &Field, v: &dyn std::fmt::Debug) { self.0.push_str(&format!("{}={:?};", f.name(), v)); }
        fn record_str(&mut self, f: &Field, v: &str) { self.0.push_str(&format!("{}={};", f.name(), v)); }
    }
    pub struct Cap(AtomicU64);
    impl Subscriber for Cap {
        fn enabled(&self, m: &Metadata<'_>) -> bool { *m.level() <= Level::ERROR }
        fn new_span(&self, _: &Attributes<'_>) -> Id { Id::from_u64(self.0.fetch_add(1, Ordering::Relaxed) + 1) }
        fn record(&self, _: &Id, _: &Record<'_>) {}
        fn record_follows_from(&self, _: &Id, _: &Id) {}
        fn event(&self, e: &Event<'_>) {
            if *e.metadata().level() == Level::ERROR {
                let mut v = V(String::new());
                e.record(&mut v);
                EVENTS.lock().unwrap().push(v.0);
            }
        }
        fn enter(&self, _: &Id) {}
        fn exit(&self, _: &Id) {}
    }
    pub fn install() { let _ = tracing::subscriber::set_global_default(Cap(AtomicU64::new(0))); }
}
"#;

/// A negative program: one mistake embedded in an otherwise valid, generated surrounding.
pub fn emit_negative(n: Neg, p: &Prog) -> String {
    let mut s = String::from("#![allow(dead_code, unused_variables)]\nuse rsactor::{Actor, ActorRef, message_handlers};\n");
    if n == Neg::DeriveOnUnion {
        s.push_str("#[derive(Actor)]\n#[repr(C)]\nunion U { a: u32, b: f32 }\nfn main() {}\n");
        return s;
    }
    s.push_str("#[derive(Actor)]\nstruct A { base: u32 }\nstruct M0;\nstruct M1;\n#[message_handlers]\nimpl A {\n");
    // a valid handler from the generated program first (the mistake must be reported, not masked)
    if let Some(h) = p.handlers.first() {
        if !matches!(h.ret, Ret::GenT | Ret::Alias | Ret::Anyhow) {
            let b = match h.ret {
                Ret::Nothing => "",
                Ret::UnitTy => "()",
                Ret::U32 => "self.base",
                Ret::Str => "String::new()",
                Ret::Tuple => "(1, String::new())",
                Ret::Opt => "None",
                Ret::VecU8 => "vec![]",
                Ret::Res | Ret::StdRes => "Ok(1)",
                _ => "",
            };
            s.push_str(&format!("    #[handler]\n    async fn ok(&mut self, _m: M1, {}){} {{ {b} }}\n", third(h.third), ret_spelling(h.ret)));
        }
    }
    let bad = match n {
        Neg::ResultAndNoLog => "    #[handler(result, no_log)]\n    async fn bad(&mut self, _m: M0, _: &ActorRef<Self>) -> Result<u32, String> { Ok(1) }\n",
        Neg::ResultWithoutReturn => "    #[handler(result)]\n    async fn bad(&mut self, _m: M0, _: &ActorRef<Self>) { }\n",
        Neg::UnknownOption => "    #[handler(timeout)]\n    async fn bad(&mut self, _m: M0, _: &ActorRef<Self>) -> u32 { 1 }\n",
        Neg::NameValue => "    #[handler = \"x\"]\n    async fn bad(&mut self, _m: M0, _: &ActorRef<Self>) -> u32 { 1 }\n",
        Neg::NotAsync => "    #[handler]\n    fn bad(&mut self, _m: M0, _: &ActorRef<Self>) -> u32 { 1 }\n",
        Neg::TwoParams => "    #[handler]\n    async fn bad(&mut self, _m: M0) -> u32 { 1 }\n",
        Neg::FourParams => "    #[handler]\n    async fn bad(&mut self, _m: M0, _: &ActorRef<Self>, _x: u32) -> u32 { 1 }\n",
        Neg::SharedSelf => "    #[handler]\n    async fn bad(&self, _m: M0, _: &ActorRef<Self>) -> u32 { 1 }\n",
        Neg::ThirdByValue => "    #[handler]\n    async fn bad(&mut self, _m: M0, _r: ActorRef<Self>) -> u32 { 1 }\n",
        Neg::ThirdNotActorRef => "    #[handler]\n    async fn bad(&mut self, _m: M0, _r: &u32) -> u32 { 1 }\n",
        Neg::DeriveOnUnion => unreachable!(),
    };
    s.push_str(bad);
    s.push_str("}\nfn main() {}\n");
    s
}

pub fn class_count(p: &Prog) -> usize {
    let mut set = std::collections::HashSet::new();
    for h in &p.handlers {
        set.insert((h.attr, h.ret));
    }
    set.len()
}
