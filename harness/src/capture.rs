//! Dependency-free `tracing::Subscriber` that captures dead-letter records and ERROR events into
//! the trace of the case in progress.

use crate::trace::{with_current, K};
use std::fmt::Write;
use std::sync::atomic::{AtomicU64, Ordering};
use tracing::field::{Field, Visit};
use tracing::span::{Attributes, Id, Record};
use tracing::{Event, Level, Metadata, Subscriber};

pub struct Capture {
    next: AtomicU64,
}

#[derive(Default)]
struct V {
    message: String,
    actor_id: u64,
    actor_type: String,
    msg_type: String,
    reason: String,
    op: String,
    other: String,
}

impl Visit for V {
    fn record_u64(&mut self, field: &Field, value: u64) {
        if field.name() == "actor.id" {
            self.actor_id = value;
        } else {
            let _ = write!(self.other, "{}={} ", field.name(), value);
        }
    }
    fn record_str(&mut self, field: &Field, value: &str) {
        match field.name() {
            "actor.type_name" => self.actor_type = value.to_string(),
            "message.type_name" => self.msg_type = value.to_string(),
            "dead_letter.operation" => self.op = value.to_string(),
            "dead_letter.reason" => self.reason = value.to_string(),
            "message" => self.message = value.to_string(),
            n => {
                let _ = write!(self.other, "{n}={value} ");
            }
        }
    }
    fn record_debug(&mut self, field: &Field, value: &dyn std::fmt::Debug) {
        let s = format!("{value:?}");
        match field.name() {
            "message" => self.message = s,
            "dead_letter.reason" => self.reason = s,
            "dead_letter.operation" => self.op = s,
            "actor.type_name" => self.actor_type = s,
            "message.type_name" => self.msg_type = s,
            n => {
                let _ = write!(self.other, "{n}={s} ");
            }
        }
    }
}

impl Subscriber for Capture {
    fn enabled(&self, meta: &Metadata<'_>) -> bool {
        // WARN and above always (dead letters, error logs); everything when rsactor's `tracing`
        // feature is on, so that its spans and debug events are really created and entered
        *meta.level() <= Level::WARN || cfg!(feature = "tracing")
    }
    fn new_span(&self, _span: &Attributes<'_>) -> Id {
        Id::from_u64(self.next.fetch_add(1, Ordering::Relaxed) + 1)
    }
    fn record(&self, _span: &Id, _values: &Record<'_>) {}
    fn record_follows_from(&self, _span: &Id, _follows: &Id) {}
    fn event(&self, event: &Event<'_>) {
        let lvl = *event.metadata().level();
        if lvl > Level::WARN {
            if cfg!(feature = "tracing") {
                // format the event so that field expressions are evaluated like a real subscriber would
                let mut v = V::default();
                event.record(&mut v);
            }
            return;
        }
        let mut v = V::default();
        event.record(&mut v);
        if v.message.starts_with("Dead letter") {
            with_current(|r| {
                r.rec(K::DeadLetter {
                    actor_id: v.actor_id,
                    actor_type: v.actor_type.clone(),
                    msg_type: v.msg_type.clone(),
                    reason: v.reason.clone(),
                    op: v.op.clone(),
                });
            });
        } else if lvl == Level::ERROR {
            with_current(|r| {
                r.rec(K::LogError { message: v.message.clone(), fields: v.other.clone() });
            });
        }
    }
    fn enter(&self, _span: &Id) {}
    fn exit(&self, _span: &Id) {}
}

pub fn install() {
    let _ = tracing::subscriber::set_global_default(Capture { next: AtomicU64::new(0) });
}
