//! Choice-sequence abstraction: every random decision of a generator is a bounded integer drawn
//! from a tape. The tape is what proptest generates and shrinks (and what libFuzzer mutates), so a
//! case is a pure function of the tape. An exhausted tape yields 0 = the simplest alternative, and
//! the mapping from tape words to choices is monotone (never `%`), so shrinking the tape shrinks
//! the scenario.

pub trait Choices {
    /// a value in 0..n (n >= 1); 0 once the tape is exhausted
    fn below(&mut self, n: u32) -> u32;

    /// inclusive range
    fn range(&mut self, lo: u32, hi: u32) -> u32 {
        if hi <= lo {
            lo
        } else {
            lo + self.below(hi - lo + 1)
        }
    }
    /// true with probability num/den (false is the simple alternative)
    fn chance(&mut self, num: u32, den: u32) -> bool {
        if num == 0 {
            let _ = self.below(den.max(1));
            return false;
        }
        // high tape values mean "true", so that shrinking towards 0 turns features off
        self.below(den) >= den - num.min(den)
    }
    /// index drawn with the given weights (index 0 should be the simplest alternative)
    fn weighted(&mut self, w: &[u32]) -> usize {
        let total: u32 = w.iter().sum();
        if total == 0 {
            let _ = self.below(1);
            return 0;
        }
        let mut x = self.below(total);
        for (i, wi) in w.iter().enumerate() {
            if x < *wi {
                return i;
            }
            x -= wi;
        }
        w.len() - 1
    }
    fn pick<'a, T>(&mut self, xs: &'a [T]) -> &'a T
    where
        Self: Sized,
    {
        &xs[self.below(xs.len() as u32) as usize]
    }
}

pub struct Tape<'a> {
    pub data: &'a [u32],
    pub pos: usize,
}

impl<'a> Tape<'a> {
    pub fn new(data: &'a [u32]) -> Self {
        Tape { data, pos: 0 }
    }
}

impl Choices for Tape<'_> {
    fn below(&mut self, n: u32) -> u32 {
        let x = self.data.get(self.pos).copied().unwrap_or(0);
        self.pos += 1;
        if n <= 1 {
            0
        } else {
            ((x as u64 * n as u64) >> 32) as u32
        }
    }
}

/// Byte-oriented tape for the libFuzzer driver: 2 bytes per choice.
pub struct ByteTape<'a> {
    pub data: &'a [u8],
    pub pos: usize,
}

impl Choices for ByteTape<'_> {
    fn below(&mut self, n: u32) -> u32 {
        let a = self.data.get(self.pos).copied().unwrap_or(0) as u32;
        let b = self.data.get(self.pos + 1).copied().unwrap_or(0) as u32;
        self.pos += 2;
        let x = (a << 8) | b;
        if n <= 1 {
            0
        } else {
            ((x as u64 * n as u64) >> 16) as u32
        }
    }
}
