//! C19 driver: build and run a generated corpus crate against the macros of the tree under test.

use crate::choices::Tape;
use crate::macrogen::*;
use crate::runner::Part;
use proptest::prelude::*;
use proptest::strategy::ValueTree;
use proptest::test_runner::{Config, RngSeed, TestRunner};
use serde::{Deserialize, Serialize};
use std::collections::HashMap;
use std::path::{Path, PathBuf};
use std::process::Command;

#[derive(Serialize, Deserialize)]
pub struct ProgReplay {
    pub property: String,
    pub kind: String,
    pub detail: String,
    pub program: Option<Prog>,
    pub negative: Option<Neg>,
}

pub struct Corpus {
    pub dir: PathBuf,
    pub repo: String,
    pub lock: String,
}

#[derive(Debug, Clone)]
pub struct Obs {
    pub prog: usize,
    pub handler: usize,
    pub path: String,
    pub v: u32,
    pub fail: bool,
    pub reply: String,
    pub events: Vec<String>,
}

impl Corpus {
    fn write(&self, progs: &[Prog], negs: &[(Neg, Prog)]) -> std::io::Result<()> {
        let src = self.dir.join("src");
        let bin = src.join("bin");
        let _ = std::fs::remove_dir_all(&src);
        std::fs::create_dir_all(&bin)?;
        let manifest = format!(
            "[package]\nname = \"corpus\"\nversion = \"0.0.0\"\nedition = \"2021\"\npublish = false\n\n[workspace]\n\n[dependencies]\nrsactor = {{ path = \"{}\" }}\ntokio = {{ version = \"1\", features = [\"macros\", \"rt\", \"rt-multi-thread\", \"time\", \"sync\"] }}\ntracing = \"0.1\"\nanyhow = \"1\"\n\n[profile.dev]\ndebug = false\nincremental = false\n",
            self.repo
        );
        std::fs::write(self.dir.join("Cargo.toml"), manifest)?;
        if !self.dir.join("Cargo.lock").exists() {
            std::fs::copy(&self.lock, self.dir.join("Cargo.lock"))?;
        }
        let mut main = String::from("#![allow(dead_code, unused_imports)]\n");
        main.push_str(SUPPORT);
        for (i, p) in progs.iter().enumerate() {
            main.push_str(&emit(i, p));
        }
        main.push_str("fn main() {\n    support::install();\n    let rt = tokio::runtime::Builder::new_multi_thread().worker_threads(2).enable_all().build().unwrap();\n    rt.block_on(async {\n        let mut out: Vec<support::Obs> = vec![];\n");
        for i in 0..progs.len() {
            main.push_str(&format!("        p{i}::run(&mut out).await;\n"));
        }
        main.push_str("        for o in out {\n            println!(\"OBS\\t{}\\t{}\\t{}\\t{}\\t{}\\t{}\\t{}\", o.prog, o.handler, o.path, o.v, o.fail, o.reply.replace('\\t', \" \"), o.events.join(\"\\u{1e}\").replace('\\t', \" \").replace('\\n', \" \"));\n        }\n    });\n}\n");
        std::fs::write(src.join("main.rs"), main)?;
        for (k, (n, p)) in negs.iter().enumerate() {
            std::fs::write(bin.join(format!("n{k}.rs")), emit_negative(*n, p))?;
        }
        Ok(())
    }

    fn cargo(&self, args: &[&str]) -> std::io::Result<std::process::Output> {
        Command::new("cargo")
            .args(args)
            .arg("--offline")
            .arg("--manifest-path")
            .arg(self.dir.join("Cargo.toml"))
            .arg("--target-dir")
            .arg(self.dir.join("target"))
            .env("CARGO_NET_OFFLINE", "true")
            .env("RUSTFLAGS", "")
            .env("CARGO_TERM_COLOR", "never")
            .output()
    }

    /// -> (observations of the positive programs, compile errors of `corpus` bin if any, per-negative error texts)
    pub fn build_and_run(&self, progs: &[Prog], negs: &[(Neg, Prog)]) -> Result<(Vec<Obs>, HashMap<usize, Vec<String>>), String> {
        self.write(progs, negs).map_err(|e| format!("cannot write corpus: {e}"))?;
        let b = self.cargo(&["build", "--bin", "corpus"]).map_err(|e| format!("cargo: {e}"))?;
        if !b.status.success() {
            let err = String::from_utf8_lossy(&b.stderr);
            let first: Vec<&str> = err.lines().filter(|l| l.starts_with("error") || l.contains("-->")).take(12).collect();
            return Err(format!("positive corpus does not compile: {}", first.join(" | ")));
        }
        let exe = self.dir.join("target").join("debug").join("corpus");
        let r = Command::new(&exe).output().map_err(|e| format!("run corpus: {e}"))?;
        if !r.status.success() {
            return Err(format!("corpus exited with {:?}: {}", r.status.code(), String::from_utf8_lossy(&r.stderr).lines().rev().take(6).collect::<Vec<_>>().join(" | ")));
        }
        let mut obs = vec![];
        for l in String::from_utf8_lossy(&r.stdout).lines() {
            let f: Vec<&str> = l.split('\t').collect();
            if f.len() >= 8 && f[0] == "OBS" {
                obs.push(Obs {
                    prog: f[1].parse().unwrap_or(usize::MAX),
                    handler: f[2].parse().unwrap_or(usize::MAX),
                    path: f[3].to_string(),
                    v: f[4].parse().unwrap_or(0),
                    fail: f[5] == "true",
                    reply: f[6].to_string(),
                    events: if f[7].is_empty() { vec![] } else { f[7].split('\u{1e}').map(|s| s.to_string()).collect() },
                });
            }
        }
        // negatives: each must fail to compile with the macro's message
        let mut neg_errors: HashMap<usize, Vec<String>> = HashMap::new();
        if !negs.is_empty() {
            let c = self.cargo(&["check", "--bins", "--keep-going", "--message-format=json"]).map_err(|e| format!("cargo check: {e}"))?;
            for l in String::from_utf8_lossy(&c.stdout).lines() {
                let Ok(j) = serde_json::from_str::<serde_json::Value>(l) else { continue };
                if j["reason"] != "compiler-message" {
                    continue;
                }
                let name = j["target"]["name"].as_str().unwrap_or("");
                let Some(k) = name.strip_prefix('n').and_then(|s| s.parse::<usize>().ok()) else { continue };
                if j["message"]["level"] == "error" {
                    neg_errors.entry(k).or_default().push(j["message"]["message"].as_str().unwrap_or("").to_string());
                }
            }
        }
        Ok((obs, neg_errors))
    }
}

/// Compare the observations of program i with the decision table. Returns violations.
pub fn judge(i: usize, p: &Prog, obs: &[Obs]) -> Vec<String> {
    let mut v = vec![];
    let mine: Vec<&Obs> = obs.iter().filter(|o| o.prog == i).collect();
    for (j, h) in p.handlers.iter().enumerate() {
        let inputs: &[(u32, bool)] = if h.msg == MsgKind::UnitMsg { &[(7, false)] } else { &[(3, false), (5, true)] };
        for (val, fail) in inputs {
            let find = |path: &str| mine.iter().find(|o| o.handler == j && o.path == path && o.v == *val && o.fail == *fail);
            match find("ask") {
                None => v.push(format!("handler {j}: no observation for ask(v={val}, fail={fail})")),
                Some(o) => {
                    let want = expected_reply(p, h, *val, *fail);
                    if o.reply != want {
                        v.push(format!("handler {j} ({:?}/{:?}): ask returned {} but the method returns {}", h.attr, h.ret, o.reply, want));
                    }
                    if !o.events.is_empty() {
                        v.push(format!("handler {j} ({:?}/{:?}): an ask produced error log events {:?}", h.attr, h.ret, o.events));
                    }
                }
            }
            match find("tell") {
                None => v.push(format!("handler {j}: no observation for tell(v={val}, fail={fail})")),
                Some(o) => {
                    let is_err = *fail && matches!(h.ret, Ret::Res | Ret::StdRes | Ret::Anyhow | Ret::Alias);
                    let want = if logs_errors(h) && is_err { 1 } else { 0 };
                    if o.events.len() != want {
                        v.push(format!(
                            "handler {j} ({:?}/{:?}, returned {}): tell produced {} error log event(s), the documented table says {}: {:?}",
                            h.attr,
                            h.ret,
                            if is_err { "Err" } else { "Ok/non-Result" },
                            o.events.len(),
                            want,
                            o.events
                        ));
                    } else if want == 1 {
                        let d = expected_error_display(h, *val);
                        let e = &o.events[0];
                        if !e.contains(&format!("tell handler returned error: {d}")) {
                            v.push(format!("handler {j}: the logged event does not carry the error's Display '{d}': {e}"));
                        }
                        let tn = if h.msg == MsgKind::Wrapped { format!("P{j}") } else { format!("M{j}") };
                        if !e.contains(&tn) {
                            v.push(format!("handler {j}: the logged event does not name the message type {tn}: {e}"));
                        }
                    }
                }
            }
        }
    }
    match mine.iter().find(|o| o.path == "final") {
        None => v.push("no final observation (actor result)".into()),
        Some(o) => {
            if o.reply != "completed=true same_instance=true" {
                v.push(format!("the value passed to spawn did not come back unchanged in a Completed result: {}", o.reply));
            }
        }
    }
    v
}

pub fn gen_programs(seed: u64, n: usize) -> Vec<(Vec<u32>, Prog)> {
    let mut runner = TestRunner::new(Config { rng_seed: RngSeed::Fixed(seed ^ 0xC19), failure_persistence: None, ..Config::default() });
    let strat = proptest::collection::vec(any::<u32>(), 8..=40);
    (0..n)
        .map(|_| {
            let tape = strat.new_tree(&mut runner).expect("tree").current();
            let p = gen_prog(&mut Tape::new(&tape));
            (tape, p)
        })
        .collect()
}

fn simplifications(p: &Prog) -> Vec<Prog> {
    let mut c = vec![];
    if p.handlers.len() > 1 {
        for j in 0..p.handlers.len() {
            let mut q = p.clone();
            q.handlers = vec![p.handlers[j].clone()];
            c.push(q);
        }
    }
    if p.generics != Generics::None && !p.handlers.iter().any(|h| h.ret == Ret::GenT) {
        let mut q = p.clone();
        q.generics = Generics::None;
        c.push(q);
    }
    if p.shape != Shape::Named {
        let mut q = p.clone();
        q.shape = Shape::Named;
        c.push(q);
    }
    if !p.derive {
        let mut q = p.clone();
        q.derive = true;
        c.push(q);
    }
    if p.extra_methods {
        let mut q = p.clone();
        q.extra_methods = false;
        c.push(q);
    }
    for j in 0..p.handlers.len() {
        if p.handlers[j].msg != MsgKind::Named && p.handlers[j].msg != MsgKind::UnitMsg {
            let mut q = p.clone();
            q.handlers[j].msg = MsgKind::Named;
            c.push(q);
        }
    }
    c
}

pub fn run(seed: u64, tier: &str, corpus_dir: &Path, repo: &str, lock: &str, replay_out: &str, part: &mut Part) -> i32 {
    let (npos, nneg) = if tier == "thorough" { (400, 44) } else { (60, 11) };
    let corpus = Corpus { dir: corpus_dir.to_path_buf(), repo: repo.to_string(), lock: lock.to_string() };
    let progs: Vec<Prog> = gen_programs(seed, npos).into_iter().map(|x| x.1).collect();
    let negs: Vec<(Neg, Prog)> = (0..nneg).map(|k| (NEGS[k % NEGS.len()], progs[(k * 7) % progs.len()].clone())).collect();
    let mut code = 0;
    // thorough: several corpora of 100 programs (keeps each compile unit moderate)
    let chunk = 100;
    let mut done_negs = false;
    for (ci, ch) in progs.chunks(chunk).enumerate() {
        let these_negs: &[(Neg, Prog)] = if !done_negs { &negs } else { &[] };
        done_negs = true;
        let res = corpus.build_and_run(ch, these_negs);
        let (obs, neg_errors) = match res {
            Ok(x) => x,
            Err(e) => {
                // the corpus as a whole failed: find a culprit by bisection over programs
                let culprit = bisect(&corpus, ch);
                let (kind, detail, prog) = match culprit {
                    Some((p, err)) => ("accepted-program-rejected", err, Some(p)),
                    None => ("corpus-build-failed", e, None),
                };
                let path = write_replay(replay_out, kind, &detail, prog, None);
                println!("VIOLATION property=C19 replay={path}");
                println!("  kind={kind} detail={detail}");
                part.violations.push(serde_json::json!({"kind": kind, "detail": detail, "replay": path}));
                return 1;
            }
        };
        for (i, p) in ch.iter().enumerate() {
            part.evaluations += 1;
            let key = format!("{:016x}", fnv(&serde_json::to_string(p).unwrap()));
            *part.labels.entry(format!("shape_{:?}", p.shape)).or_default() += 1;
            *part.labels.entry(format!("generics_{:?}", p.generics)).or_default() += 1;
            *part.labels.entry(if p.derive { "derive_actor".to_string() } else { "manual_actor".to_string() }).or_default() += 1;
            for h in &p.handlers {
                *part.labels.entry(format!("attr_{:?}", h.attr)).or_default() += 1;
                *part.labels.entry(format!("ret_{:?}", h.ret)).or_default() += 1;
            }
            if class_count(p) >= 2 && !part.nontrivial_hashes.contains(&key) {
                part.nontrivial_hashes.push(key);
                if part.samples.len() < 2 {
                    part.samples.push(serde_json::json!({"program": p, "observations": obs.iter().filter(|o| o.prog == i).map(|o| format!("{} h{} v={} fail={} -> {} events={}", o.path, o.handler, o.v, o.fail, o.reply, o.events.len())).collect::<Vec<_>>()}));
                }
            }
            let viol = judge(i, p, &obs);
            if !viol.is_empty() && code == 0 {
                // shrink: simplify the descriptor while it still misbehaves
                let mut best = p.clone();
                let mut best_v = viol.clone();
                let mut rounds = 0;
                'outer: while rounds < 4 {
                    rounds += 1;
                    for cand in simplifications(&best) {
                        if let Ok((o2, _)) = corpus.build_and_run(std::slice::from_ref(&cand), &[]) {
                            let v2 = judge(0, &cand, &o2);
                            if !v2.is_empty() {
                                best = cand;
                                best_v = v2;
                                continue 'outer;
                            }
                        }
                    }
                    break;
                }
                let detail = best_v.join("; ");
                let path = write_replay(replay_out, "macro-behaviour", &detail, Some(best), None);
                println!("VIOLATION property=C19 replay={path}");
                println!("  kind=macro-behaviour detail={detail}");
                part.violations.push(serde_json::json!({"kind": "macro-behaviour", "detail": detail, "replay": path}));
                code = 1;
            }
        }
        if ci == 0 {
            for (k, (n, _)) in negs.iter().enumerate() {
                part.evaluations += 1;
                *part.labels.entry(format!("negative_{n:?}")).or_default() += 1;
                part.nontrivial_hashes.push(format!("neg:{n:?}:{k}"));
                let errs = neg_errors.get(&k).cloned().unwrap_or_default();
                let want = n.expected_message();
                let bad = if errs.is_empty() {
                    Some(format!("negative program {n:?} was accepted by the compiler"))
                } else if !errs.iter().any(|e| e.contains(want)) {
                    Some(format!("negative program {n:?} is rejected, but not with the macro's message '{want}': {:?}", errs.iter().take(2).collect::<Vec<_>>()))
                } else {
                    None
                };
                if let Some(detail) = bad {
                    if code == 0 {
                        let path = write_replay(replay_out, "negative-program", &detail, Some(negs[k].1.clone()), Some(*n));
                        println!("VIOLATION property=C19 replay={path}");
                        println!("  kind=negative-program detail={detail}");
                        part.violations.push(serde_json::json!({"kind": "negative-program", "detail": detail, "replay": path}));
                        code = 1;
                    }
                }
            }
        }
        if code != 0 {
            break;
        }
    }
    code
}

fn bisect(corpus: &Corpus, progs: &[Prog]) -> Option<(Prog, String)> {
    let mut lo = 0usize;
    let mut hi = progs.len();
    // invariant: progs[lo..hi] fails to build
    while hi - lo > 1 {
        let mid = (lo + hi) / 2;
        if corpus.build_and_run(&progs[lo..mid], &[]).is_err() {
            hi = mid;
        } else if corpus.build_and_run(&progs[mid..hi], &[]).is_err() {
            lo = mid;
        } else {
            return None;
        }
    }
    match corpus.build_and_run(&progs[lo..hi], &[]) {
        Err(e) => Some((progs[lo].clone(), e)),
        Ok(_) => None,
    }
}

fn fnv(s: &str) -> u64 {
    let mut h: u64 = 0xcbf29ce484222325;
    for b in s.as_bytes() {
        h ^= *b as u64;
        h = h.wrapping_mul(0x100000001b3);
    }
    h
}

fn write_replay(dir: &str, kind: &str, detail: &str, program: Option<Prog>, negative: Option<Neg>) -> String {
    let _ = std::fs::create_dir_all(dir);
    let body = serde_json::to_string_pretty(&ProgReplay { property: "C19".into(), kind: kind.into(), detail: detail.into(), program, negative }).unwrap();
    let path = format!("{dir}/C19-p{:016x}.json", fnv(&body));
    let _ = std::fs::write(&path, body);
    path
}

pub fn replay(file: &str, corpus_dir: &Path, repo: &str, lock: &str) -> i32 {
    let Ok(s) = std::fs::read_to_string(file) else { return 2 };
    let Ok(r) = serde_json::from_str::<ProgReplay>(&s) else { return 2 };
    let corpus = Corpus { dir: corpus_dir.to_path_buf(), repo: repo.to_string(), lock: lock.to_string() };
    let Some(p) = r.program else { return 2 };
    let negs: Vec<(Neg, Prog)> = r.negative.map(|n| vec![(n, p.clone())]).unwrap_or_default();
    let progs = if r.negative.is_some() { vec![] } else { vec![p.clone()] };
    // a corpus needs at least one positive program to have a `corpus` bin
    let base = vec![Prog { shape: Shape::Named, generics: Generics::None, derive: true, handlers: vec![Handler { attr: Attr::Plain, ret: Ret::U32, msg: MsgKind::Named, third: 0 }], extra_methods: false, base: 1 }];
    let use_progs = if progs.is_empty() { &base } else { &progs };
    match corpus.build_and_run(use_progs, &negs) {
        Err(e) => {
            println!("VIOLATION property=C19 replay={file}");
            println!("  kind=accepted-program-rejected detail={e}");
            1
        }
        Ok((obs, neg_errors)) => {
            let mut code = 0;
            if r.negative.is_none() {
                let v = judge(0, &p, &obs);
                if !v.is_empty() {
                    println!("VIOLATION property=C19 replay={file}");
                    println!("  kind=macro-behaviour detail={}", v.join("; "));
                    code = 1;
                }
            } else {
                let n = r.negative.unwrap();
                let errs = neg_errors.get(&0).cloned().unwrap_or_default();
                if errs.is_empty() || !errs.iter().any(|e| e.contains(n.expected_message())) {
                    println!("VIOLATION property=C19 replay={file}");
                    println!("  kind=negative-program detail={n:?}: {errs:?}");
                    code = 1;
                }
            }
            if code == 0 {
                println!("replay passed");
            }
            code
        }
    }
}
