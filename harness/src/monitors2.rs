//! Oracles for C12–C16, C20 (and the canonical-trace machinery used by C16 / C18).

use crate::actor::{JobMsg, MsgA, MsgB};
use crate::monitors as m1;
use crate::scenario::*;
use crate::trace::*;
use crate::view::*;
use std::collections::{HashMap, HashSet};

fn type_name_of(ty: Ty) -> &'static str {
    match ty {
        Ty::A => std::any::type_name::<MsgA>(),
        Ty::B => std::any::type_name::<MsgB>(),
        Ty::Job => std::any::type_name::<JobMsg>(),
    }
}

// ------------------------------------------------------------------------------------------
// C13 — exactly one dead letter per failed delivery
// ------------------------------------------------------------------------------------------
pub fn c13(v: &View) -> Vec<Violation> {
    let mut out = vec![];
    struct F<'a> {
        o: &'a OpRec,
        reason: &'static str,
        matched: bool,
    }
    let mut failed: Vec<F> = vec![];
    for o in v.sends() {
        let reason = match &o.res {
            Some(Res::ErrSend) => "actor stopped",
            Some(Res::ErrTimeout) => "timeout",
            Some(Res::ErrRecv) => "reply dropped",
            _ => continue,
        };
        failed.push(F { o, reason, matched: false });
    }
    let label_ok = |how: How, op: &str| match how {
        How::Tell | How::TellT(_) | How::TellC(_) | How::TellL { .. } => op == "tell",
        How::Ask | How::AskT(_) | How::AskJoin | How::AskC(_) | How::AskTL(..) | How::AskL { .. } => op == "ask",
        How::BTell(_) | How::DepTell(_) => op == "tell" || op == "blocking_tell",
        How::BAsk(_) | How::DepAsk(_) => op == "ask" || op == "blocking_ask",
    };
    // First try to explain everything at once: a maximum bipartite matching between dead letters
    // and failed operations where an edge requires the record to lie inside the operation's
    // interval, the same target / message type / reason and a label of the operation's family.
    // If it is perfect, every failure has exactly one fitting record and nothing is spurious -
    // whatever the interleaving of concurrent failures was. Only otherwise is the greedy pass
    // below used, to name what is missing, spurious or mislabelled.
    {
        let compat = |d: &(u64, String, String, String, String, u64), f: &F| -> bool {
            let (how, _, ty) = f.o.send().unwrap();
            let av = &v.actors[f.o.a];
            f.o.b_seq < d.0 && f.o.e_seq.map(|e| e > d.0).unwrap_or(false) && av.id == d.5 && av.ty == d.1 && type_name_of(ty) == d.2 && f.reason == d.3 && label_ok(how, &d.4)
        };
        let nd = v.dead_letters.len();
        if nd == failed.len() {
            let mut owner: Vec<Option<usize>> = vec![None; failed.len()];
            fn try_aug(d: usize, adj: &Vec<Vec<usize>>, seen: &mut Vec<bool>, owner: &mut Vec<Option<usize>>) -> bool {
                for &f in &adj[d] {
                    if seen[f] {
                        continue;
                    }
                    seen[f] = true;
                    if owner[f].is_none() || try_aug(owner[f].unwrap(), adj, seen, owner) {
                        owner[f] = Some(d);
                        return true;
                    }
                }
                false
            }
            let adj: Vec<Vec<usize>> = v.dead_letters.iter().map(|d| (0..failed.len()).filter(|i| compat(d, &failed[*i])).collect()).collect();
            let mut matched = 0;
            for d in 0..nd {
                let mut seen = vec![false; failed.len()];
                if try_aug(d, &adj, &mut seen, &mut owner) {
                    matched += 1;
                }
            }
            if matched == nd {
                for f in failed.iter_mut() {
                    f.matched = true;
                }
                return finish_c13(v, out, failed.len() as u64);
            }
        }
    }
    for (d, actor_type, msg_type, reason, op, actor_id) in &v.dead_letters {
        // points-to-intervals matching, earliest deadline first; operations whose label fits
        // are preferred so that concurrent failures of different kinds are not crossed
        let mut best: Option<usize> = None;
        for want_label in [true, false] {
            for (i, f) in failed.iter().enumerate() {
                if f.matched {
                    continue;
                }
                let (how, _, ty) = f.o.send().unwrap();
                let av = &v.actors[f.o.a];
                if f.o.b_seq < *d
                    && f.o.e_seq.map(|e| e > *d).unwrap_or(false)
                    && av.id == *actor_id
                    && type_name_of(ty) == msg_type
                    && f.reason == reason
                    && (!want_label || label_ok(how, op))
                {
                    if best.map(|b| failed[b].o.e_seq > f.o.e_seq).unwrap_or(true) {
                        best = Some(i);
                    }
                }
            }
            if best.is_some() {
                break;
            }
        }
        match best {
            None => out.push(viol(
                "C13",
                "spurious-dead-letter",
                format!("dead letter at seq {d} (actor #{actor_id}, {msg_type}, reason '{reason}', op '{op}') matches no failed operation in progress at that moment"),
            )),
            Some(i) => {
                failed[i].matched = true;
                let (how, mid, _) = failed[i].o.send().unwrap();
                let ok_label = label_ok(how, op);
                if !ok_label {
                    out.push(viol("C13", "wrong-operation-label", format!("{how:?} of message {mid} failed ({reason}); its dead letter names operation '{op}'")));
                }
                if *actor_type != v.actors[failed[i].o.a].ty {
                    out.push(viol("C13", "wrong-actor-type", format!("dead letter names actor type {actor_type}, target is {}", v.actors[failed[i].o.a].ty)));
                }
            }
        }
    }
    for f in &failed {
        if !f.matched {
            let (how, mid, _) = f.o.send().unwrap();
            out.push(viol(
                "C13",
                "missing-dead-letter",
                format!("{how:?} of message {mid} to actor {} returned {:?} but no dead letter (reason '{}') was recorded for it", f.o.a, f.o.res, f.reason),
            ));
        }
    }
    let nfailed = failed.len() as u64;
    finish_c13(v, out, nfailed)
}

fn finish_c13(v: &View, mut out: Vec<Violation>, nfailed: u64) -> Vec<Violation> {
    if v.dl_counts.len() >= 2 {
        let delta = v.dl_counts[v.dl_counts.len() - 1] - v.dl_counts[0];
        if delta != v.dead_letters.len() as u64 {
            out.push(viol("C13", "counter-mismatch", format!("dead_letter_count() advanced by {delta}, {} dead-letter records were emitted", v.dead_letters.len())));
        }
        if delta != nfailed {
            out.push(viol("C13", "counter-vs-failures", format!("dead_letter_count() advanced by {delta}, {nfailed} operations failed to deliver")));
        }
    }
    out
}

pub fn c13_labels(v: &View, l: &mut Vec<&'static str>) {
    let mut reasons = HashSet::new();
    for o in v.sends() {
        match &o.res {
            Some(Res::ErrSend) => {
                reasons.insert("send");
                l.push("fail_actor_stopped");
            }
            Some(Res::ErrTimeout) => {
                reasons.insert("timeout");
                l.push("fail_timeout");
            }
            Some(Res::ErrRecv) => {
                reasons.insert("recv");
                l.push("fail_reply_dropped");
            }
            _ => {}
        }
    }
    if reasons.len() >= 2 {
        l.push("two_failure_reasons");
    }
    if reasons.len() >= 3 {
        l.push("three_failure_reasons");
    }
    l.sort();
    l.dedup();
}

// ------------------------------------------------------------------------------------------
// wait-for model shared by C14 / C15 / C18
// ------------------------------------------------------------------------------------------
#[derive(Debug, Clone)]
pub struct AskEdge {
    pub op: u64,
    pub x: usize,
    pub y: usize,
    pub mid: u32,
    pub b_seq: u64,
    /// the reply was produced (handler of this request ended)
    pub answered: Option<u64>,
    /// the asker's call returned, or its future was dropped (on_run cancelled, asker task died)
    pub gone: Option<u64>,
    pub panicked: Option<String>,
}

pub fn ask_edges(v: &View) -> Vec<AskEdge> {
    let mut es = vec![];
    for o in &v.ops {
        let Src::Actor(x) = o.src else { continue };
        let Some((how, mid, _)) = o.send() else { continue };
        if !how.is_ask() || how.is_blocking() || o.skipped() || o.a >= v.actors.len() {
            continue;
        }
        let answered = v.handlers.get(&mid).and_then(|h| h.iter().find(|h| h.a == o.a)).and_then(|h| h.e_seq);
        let mut gone = o.e_seq;
        if gone.is_none() {
            if let Some(HookId::Run(inv)) = o.hook {
                // the on_run future was dropped when the select loop chose another branch
                gone = v.actors[x]
                    .hooks
                    .iter()
                    .find(|h| h.0 > o.b_seq && !matches!(h.2, HookEv::RunStep(i, _) if i == inv))
                    .map(|h| h.0);
            }
        }
        // the asker's task died (a sibling call of the same hook panicked, ...): its futures are gone
        if gone.is_none() {
            if let Some(p) = v.actors[x].panic_seq.filter(|p| *p > o.b_seq) {
                gone = Some(p);
            }
        }
        let panicked = match &o.res {
            Some(Res::Panicked(m)) => Some(m.clone()),
            _ => None,
        };
        es.push(AskEdge { op: o.op, x, y: o.a, mid, b_seq: o.b_seq, answered, gone, panicked });
    }
    es
}

/// Is there a path from `from` to `to` at moment `s`? `stale_too`: also use edges whose reply
/// was already produced while the asker has not resumed yet.
fn path(es: &[AskEdge], s: u64, from: usize, to: usize, stale_too: bool) -> Option<Vec<usize>> {
    let live = |e: &AskEdge| {
        e.panicked.is_none() && e.b_seq < s && e.gone.map(|g| g > s).unwrap_or(true) && (stale_too || e.answered.map(|a| a > s).unwrap_or(true))
    };
    let mut stack = vec![(from, vec![from])];
    let mut seen = HashSet::new();
    while let Some((n, p)) = stack.pop() {
        if n == to {
            return Some(p);
        }
        if !seen.insert(n) {
            continue;
        }
        for e in es.iter().filter(|e| e.x == n && live(e)) {
            let mut q = p.clone();
            q.push(e.y);
            stack.push((e.y, q));
        }
    }
    None
}

/// Does the run contain an ask cycle (in the logical, unanswered-asks sense)?
pub fn has_logical_cycle(v: &View) -> bool {
    let es = ask_edges(v);
    es.iter().any(|e| e.x == e.y || path(&es, e.b_seq, e.y, e.x, false).is_some())
}

// ------------------------------------------------------------------------------------------
// C14 — deadlock detection is complete
// ------------------------------------------------------------------------------------------
pub fn c14(v: &View) -> Vec<Violation> {
    let mut out = vec![];
    let es = ask_edges(v);
    let h2 = v.phase_seq[1];
    for e in &es {
        let cyc = if e.x == e.y { Some(vec![e.y]) } else { path(&es, e.b_seq, e.y, e.x, false) };
        let Some(p) = cyc else { continue };
        match &e.panicked {
            Some(msg) if msg.starts_with("Deadlock detected") => {
                let mut members: Vec<usize> = p.clone();
                members.push(e.x);
                for a in members {
                    // "naming the cycle": every participant must be identifiable in the message;
                    // only the id is required, not a particular rendering of the identity
                    let name = format!("#{}", v.actors[a].id);
                    let named = msg.match_indices(&name).any(|(i, _)| !msg[i + name.len()..].starts_with(|c: char| c.is_ascii_digit()));
                    if !named {
                        out.push(viol("C14", "cycle-message-incomplete", format!("deadlock panic for the ask {}->{} does not name participant {name}: {msg}", e.x, e.y)));
                    }
                }
            }
            other => {
                out.push(viol(
                    "C14",
                    "cycle-not-detected",
                    format!("actor {} asked actor {} (message {}, seq {}) while unanswered asks led from {} back to {} (path {:?}); the ask did not panic: {:?}", e.x, e.y, e.mid, e.b_seq, e.y, e.x, p, other),
                ));
            }
        }
        // nobody of the would-be cycle is left waiting
        if let Some(h2) = h2 {
            for w in es.iter().filter(|w| w.b_seq < e.b_seq && p.contains(&w.x) && w.gone.map(|g| g > e.b_seq).unwrap_or(true)) {
                let _ = h2;
            if w.gone.is_none() {
                    out.push(viol("C14", "cycle-participant-left-waiting", format!("ask {}->{} (message {}) of the would-be cycle never completed", w.x, w.y, w.mid)));
                }
            }
        }
    }
    out
}

pub fn c14_labels(v: &View, l: &mut Vec<&'static str>) {
    let es = ask_edges(v);
    for e in &es {
        let cyc = if e.x == e.y { Some(vec![e.y]) } else { path(&es, e.b_seq, e.y, e.x, false) };
        if let Some(p) = cyc {
            match p.len() {
                1 if e.x == e.y => l.push("self_ask"),
                1 | 2 => l.push("cycle_len_2"),
                _ => l.push("cycle_len>=3"),
            }
            let hooks: Vec<Option<HookId>> = es.iter().filter(|w| (p.contains(&w.x) || w.op == e.op) && w.b_seq <= e.b_seq && w.gone.map(|g| g >= e.b_seq).unwrap_or(true)).map(|w| v.op(w.op).and_then(|o| o.hook)).collect();
            if hooks.iter().any(|h| matches!(h, Some(HookId::Start) | Some(HookId::Run(_)) | Some(HookId::Stop))) {
                l.push("cycle_through_lifecycle_hook");
            }
            if v.op(e.op).map(|o| matches!(o.send(), Some((How::AskT(_), _, _)))).unwrap_or(false) {
                l.push("closing_ask_has_timeout");
            }
        }
    }
    if es.len() >= 2 {
        l.push("actor_asks>=2");
    }
    // an abandoned ask retried against the same callee while the callee is still busy with (or
    // has not yet reached) the abandoned request
    for e1 in &es {
        let timed_out = v.op(e1.op).map(|o| matches!(o.res, Some(Res::ErrTimeout))).unwrap_or(false) || (e1.gone.is_some() && v.op(e1.op).map(|o| o.res.is_none()).unwrap_or(false));
        if !timed_out {
            continue;
        }
        for e2 in es.iter().filter(|e2| e2.x == e1.x && e2.y == e1.y && e2.b_seq > e1.b_seq) {
            if e1.answered.map(|a| a > e2.b_seq).unwrap_or(false) {
                l.push("retry_same_callee_while_abandoned_request_unfinished");
            }
        }
    }
    l.sort();
    l.dedup();
}

// ------------------------------------------------------------------------------------------
// C15 — deadlock detection is sound, no residue
// ------------------------------------------------------------------------------------------
pub fn c15(v: &View) -> Vec<Violation> {
    let mut out = vec![];
    let es = ask_edges(v);
    for o in &v.ops {
        let Some(Res::Panicked(msg)) = &o.res else { continue };
        if !msg.starts_with("Deadlock detected") {
            continue;
        }
        match o.src {
            Src::Actor(x) => {
                let y = o.a;
                let justified = x == y || path(&es, o.b_seq, y, x, false).is_some();
                if !justified {
                    let stale = path(&es, o.b_seq, y, x, true);
                    match stale {
                        Some(p) => out.push(viol(
                            "C15",
                            "unjustified-deadlock-panic-stale-edge",
                            format!("actor {x} asking actor {y} panicked with a deadlock report, but every ask on the path {p:?}->{x} had already been answered (asker not yet resumed): {}", msg.lines().next().unwrap_or("")),
                        )),
                        None => out.push(viol(
                            "C15",
                            "unjustified-deadlock-panic",
                            format!("actor {x} asking actor {y} panicked with a deadlock report although no chain of in-flight asks leads from {y} back to {x}: {}", msg.lines().next().unwrap_or("")),
                        )),
                    }
                }
            }
            other => out.push(viol("C15", "non-actor-caller-tracked", format!("{other:?} (not an actor) got a deadlock panic: {msg}"))),
        }
    }
    // graph snapshots at quiescent instants == pending actor-context asks
    let ids: HashMap<usize, u64> = v.actors.iter().enumerate().map(|(i, a)| (i, a.id)).collect();
    for (g, t, edges) in &v.graphs {
        let mut want: Vec<(u64, u64)> = es
            .iter()
            .filter(|e| e.panicked.is_none() && e.b_seq < *g && e.gone.map(|x| x > *g).unwrap_or(true))
            .map(|e| (ids[&e.x], ids[&e.y]))
            .collect();
        want.sort();
        want.dedup();
        let mut got = edges.clone();
        got.sort();
        if got != want {
            let extra: Vec<_> = got.iter().filter(|e| !want.contains(e)).collect();
            // an actor with several asks in flight at once keeps one edge only (the documented
            // limitation of the detection): a missing edge is reported for sequential askers only
            let concurrent: HashSet<u64> = es
                .iter()
                .filter(|e| es.iter().any(|f| f.op != e.op && f.x == e.x && f.b_seq < e.gone.unwrap_or(u64::MAX) && e.b_seq < f.gone.unwrap_or(u64::MAX)))
                .map(|e| ids[&e.x])
                .collect();
            let missing: Vec<_> = want.iter().filter(|e| !got.contains(e) && !concurrent.contains(&e.0)).collect();
            if !extra.is_empty() {
                out.push(viol("C15", "graph-residue", format!("wait-for graph at quiescent instant t={t} (seq {g}) contains {extra:?} although no such ask is in flight (expected {want:?})")));
            }
            if !missing.is_empty() {
                out.push(viol("C15", "graph-missing-edge", format!("wait-for graph at quiescent instant t={t} (seq {g}) lacks {missing:?} of the asks in flight")));
            }
            if !extra.is_empty() || !missing.is_empty() {
                break;
            }
        }
    }
    out
}

pub fn c15_labels(v: &View, l: &mut Vec<&'static str>) {
    let es = ask_edges(v);
    for e in &es {
        // B asked A within 2 ms after answering A
        for f in es.iter().filter(|f| f.x == e.y && f.y == e.x && f.b_seq > e.b_seq) {
            if let Some(ans) = e.answered {
                if f.b_seq > ans {
                    let ta = v.evs[(ans - 1) as usize].t;
                    let tb = v.evs[(f.b_seq - 1) as usize].t;
                    if tb - ta <= 2 {
                        l.push("reverse_ask_within_2ms_of_reply");
                    }
                    l.push("reverse_ask_after_reply");
                }
            }
        }
        if let Some(o) = v.op(e.op) {
            match &o.res {
                Some(Res::ErrTimeout) => l.push("actor_ask_timed_out"),
                Some(Res::ErrRecv) | Some(Res::ErrSend) => l.push("actor_ask_failed"),
                None if e.gone.is_some() => l.push("actor_ask_cancelled"),
                Some(Res::Panicked(_)) => l.push("actor_ask_panicked"),
                _ => {}
            }
        }
    }
    if !v.graphs.is_empty() && es.iter().any(|e| v.graphs.iter().any(|g| e.b_seq < g.0 && e.gone.map(|x| x > g.0).unwrap_or(true))) {
        l.push("graph_sampled_with_ask_in_flight");
    }
    l.sort();
    l.dedup();
}

// ------------------------------------------------------------------------------------------
// C12 — a failing actor fails alone (composite)
// ------------------------------------------------------------------------------------------
pub fn c12(v: &View) -> Vec<Violation> {
    let mut out = vec![];
    let subs: Vec<(&'static str, fn(&View) -> Vec<Violation>)> = vec![
        ("C01", m1::c01),
        ("C02", m1::c02),
        ("C03", m1::c03),
        ("C04", m1::c04),
        ("C05", m1::c05),
        ("C06", m1::c06),
        ("C07", m1::c07),
        ("C08", m1::c08),
        ("C09", m1::c09),
        ("C10", m1::c10),
        ("C11", m1::c11),
        ("C13", c13),
        ("C15", c15),
    ];
    for (_, f) in subs {
        for x in f(v) {
            out.push(Violation { prop: "C12", kind: x.kind, detail: format!("[while an actor was failing] {}", x.detail) });
        }
    }
    // victim-specific: the failure is reported, nothing else is
    for a in 0..v.actors.len() {
        let av = &v.actors[a];
        if let Some(p) = av.panic_seq {
            if let Some((_, _, jr, _)) = &av.joined {
                if !matches!(jr, JoinRes::Panic(_)) {
                    out.push(viol("C12", "victim-panic-not-reported", format!("actor {a} panicked at seq {p}; its JoinHandle produced {jr:?}")));
                }
            } else if v.phase_seq[1].is_some() {
                out.push(viol("C12", "victim-never-joined", format!("actor {a} panicked at seq {p} but its JoinHandle never resolved")));
            }
            if av.hooks.iter().any(|h| h.0 > p && matches!(h.2, HookEv::StopBegin(_))) {
                out.push(viol("C12", "on-stop-after-panic", format!("actor {a}: on_stop ran after the panic at seq {p}")));
            }
        }
    }
    // the late actor (spawned after everything else happened) is healthy and has a fresh id
    if v.sc.late_spawn {
        let n = v.actors.len() - 1;
        let late = &v.actors[n];
        if !late.spawned {
            out.push(viol("C12", "late-spawn-failed", "spawning a fresh actor after the failures did not work".into()));
        } else {
            for a in 0..n {
                if v.actors[a].spawned && v.actors[a].id == late.id {
                    out.push(viol("C12", "id-reused", format!("fresh actor got id {} already used by actor {a}", late.id)));
                }
            }
            let answered = v.ops.iter().any(|o| o.a == n && matches!(o.res, Some(Res::Rep { .. })));
            if !answered && v.phase_seq[1].is_some() {
                out.push(viol("C12", "late-actor-not-serving", "a fresh actor spawned after the failures did not answer an ask".into()));
            }
        }
    }
    out
}

pub fn c12_labels(v: &View, l: &mut Vec<&'static str>) {
    for a in 0..v.actors.len() {
        let av = &v.actors[a];
        let fail = av.panic_seq.or(av.run_err.map(|r| r.0)).or(av.start_end.filter(|s| s.2 != Out::Ok).map(|s| s.0));
        let Some(p) = fail else { continue };
        l.push("some_actor_failed");
        if av.panic_seq.is_some() {
            l.push("some_actor_panicked");
        }
        for o in v.ops.iter().filter(|o| o.send().is_some() && o.b_seq < p && o.e_seq.map(|e| e > p).unwrap_or(true)) {
            let peer_to = o.a == a && matches!(o.src, Src::Actor(_));
            let peer_from = o.src == Src::Actor(a);
            if peer_to {
                l.push("peer_op_in_flight_to_victim");
            }
            if peer_from {
                l.push("victim_op_in_flight_to_peer");
            }
            if o.a == a && matches!(o.src, Src::Client(_)) {
                l.push("client_op_in_flight_to_victim");
            }
        }
        if v.ops.iter().any(|o| matches!(&o.res, Some(Res::Panicked(m)) if m.starts_with("Deadlock"))) {
            l.push("deadlock_panic");
        }
    }
    l.sort();
    l.dedup();
}

// ------------------------------------------------------------------------------------------
// canonical traces (C16, C18)
// ------------------------------------------------------------------------------------------
/// The observable trace with process-global ids replaced by scenario indices, routing details
/// and real-time measurements removed.
pub fn canonical(v: &View, with_logs: bool) -> Vec<String> {
    let idmap: HashMap<u64, usize> = v.actors.iter().enumerate().filter(|(_, a)| a.spawned).map(|(i, a)| (a.id, i)).collect();
    let mut out = vec![];
    // operation numbers and reply nonces are renumbered by order of appearance (the raw values
    // depend on how many harness-only events a build records); metrics reads exist only in
    // builds with the metrics feature and are left out altogether
    let mut opmap: HashMap<u64, usize> = HashMap::new();
    let mut skip_ops: HashSet<u64> = HashSet::new();
    let mut nonces: HashMap<u64, usize> = HashMap::new();
    let mut tags: HashMap<u64, usize> = HashMap::new();
    let mut tag = |t: u64, tags: &mut HashMap<u64, usize>| -> usize {
        if t == 0 {
            return 0;
        }
        let n = tags.len() + 1;
        *tags.entry(t).or_insert(n)
    };
    for e in v.evs {
        let line = match &e.k {
            K::Strong { .. } | K::Graph { .. } | K::DeadLetterCount { .. } | K::MetricsRead { .. } | K::RunPoll { .. } => continue,
            K::Spawned { a, cap, .. } => format!("Spawned a={a} cap={cap}"),
            K::OpBegin { op, kind: OpKind::Metrics, .. } => {
                skip_ops.insert(*op);
                continue;
            }
            K::OpBegin { op, src, hook, a, kind, slot, .. } => {
                let n = opmap.len();
                opmap.insert(*op, n);
                format!("OpBegin op={n} src={src:?} hook={hook:?} a={a} kind={kind:?} slot={slot}")
            }
            K::HEnd { a, mid, nonce, out, .. } => {
                let n = nonces.len();
                nonces.insert(*nonce, n);
                format!("HEnd a={a} mid={mid} nonce={n} out={out:?}")
            }
            K::StartEnd { a, out, tag: t } => format!("StartEnd a={a} out={out:?} tag={}", tag(*t, &mut tags)),
            K::RunEnd { a, inv, out, tag: t } => format!("RunEnd a={a} inv={inv} out={out:?} tag={}", tag(*t, &mut tags)),
            K::StopEnd { a, out, tag: t } => format!("StopEnd a={a} out={out:?} tag={}", tag(*t, &mut tags)),
            K::Obs { op, id, alive, upgradable, .. } => format!("Obs op={:?} actor={:?} alive={alive} up={upgradable:?}", opmap.get(op), idmap.get(id)),
            K::DeadLetter { actor_id, msg_type, reason, op, .. } => {
                if !with_logs {
                    continue;
                }
                format!("DeadLetter actor={:?} msg={msg_type} reason={reason} op={op}", idmap.get(actor_id))
            }
            K::LogError { .. } => continue,
            K::PanicSeen { msg } => {
                // replace "(#id)" occurrences by actor indices
                let mut m = msg.clone();
                for (id, i) in &idmap {
                    m = m.replace(&format!("(#{id})"), &format!("(@{i})"));
                }
                format!("PanicSeen {}", m.lines().next().unwrap_or(""))
            }
            K::OpEnd { op, .. } if skip_ops.contains(op) => continue,
            K::OpEnd { op, res } => {
                let op = opmap.get(op).copied().unwrap_or(usize::MAX);
                let r = match res {
                    Res::Rep { id, nonce, err } => format!("Rep id={id} nonce={:?} err={err}", nonces.get(nonce)),
                    Res::Panicked(msg) => {
                        let mut m = msg.clone();
                        for (id, i) in &idmap {
                            m = m.replace(&format!("(#{id})"), &format!("(@{i})"));
                        }
                        format!("Panicked({})", m.lines().next().unwrap_or(""))
                    }
                    other => format!("{other:?}"),
                };
                format!("OpEnd op={op} res={r}")
            }
            K::Joined { a, res, state } => {
                let r = match res {
                    JoinRes::Panic(msg) => {
                        let mut m = msg.clone();
                        for (id, i) in &idmap {
                            m = m.replace(&format!("(#{id})"), &format!("(@{i})"));
                        }
                        format!("Panic({})", m.lines().next().unwrap_or(""))
                    }
                    JoinRes::Failed { phase, killed, has_actor, err_tag, err_hook } => {
                        format!("Failed phase={phase} killed={killed} has_actor={has_actor} err_tag={} err_hook={err_hook}", tag(*err_tag, &mut tags))
                    }
                    other => format!("{other:?}"),
                };
                format!("Joined a={a} res={r} state={state:?}")
            }
            other => format!("{other:?}"),
        };
        out.push(format!("t={} {}", e.t, line));
    }
    out
}

/// Per-task projection of the observable trace (C18): what each client saw (operations, results,
/// virtual times), what each actor did (hook sequence with times, state, final result) - without
/// the relative order of different tasks inside one virtual instant, which is not an observable of
/// the API and would make the comparison sensitive to harmless scheduling hops.
pub fn canonical_projected(v: &View) -> Vec<String> {
    let idmap: HashMap<u64, usize> = v.actors.iter().enumerate().filter(|(_, a)| a.spawned).map(|(i, a)| (a.id, i)).collect();
    let fix_ids = |msg: &str| {
        let mut m = msg.lines().next().unwrap_or("").to_string();
        for (id, i) in &idmap {
            m = m.replace(&format!("(#{id})"), &format!("(@{i})"));
        }
        m
    };
    let mut groups: std::collections::BTreeMap<String, Vec<String>> = Default::default();
    let mut op_owner: HashMap<u64, String> = HashMap::new();
    let mut tags: HashMap<u64, usize> = HashMap::new();
    let mut tag = |t: u64, tags: &mut HashMap<u64, usize>, a: usize| -> String {
        if t == 0 {
            return "0".into();
        }
        let n = tags.len() + 1;
        let k = *tags.entry(t).or_insert(n);
        let _ = k;
        // error tags are unique per hook invocation; their identity is (actor, position)
        format!("tag@{a}")
    };
    for e in v.evs {
        let (key, line) = match &e.k {
            K::OpBegin { kind: OpKind::Metrics, .. } => continue,
            K::OpBegin { op, src, hook, a, kind, slot, .. } => {
                let key = format!("{src:?}");
                op_owner.insert(*op, key.clone());
                (key, format!("begin hook={hook:?} a={a} kind={kind:?} slot={slot}"))
            }
            K::OpEnd { op, res } => {
                let Some(key) = op_owner.get(op).cloned() else { continue };
                let r = match res {
                    Res::Rep { id, err, .. } => format!("Rep id={id} err={err}"),
                    Res::Panicked(m) => format!("Panicked({})", fix_ids(m)),
                    other => format!("{other:?}"),
                };
                (key, format!("end res={r}"))
            }
            K::Obs { op, id, alive, upgradable, .. } => {
                let Some(key) = op_owner.get(op).cloned() else { continue };
                (key, format!("obs actor={:?} alive={alive} up={upgradable:?}", idmap.get(id)))
            }
            K::StartBegin { a } => (format!("Actor({a})h"), "StartBegin".into()),
            K::StartEnd { a, out, tag: t } => (format!("Actor({a})h"), format!("StartEnd out={out:?} tag={}", tag(*t, &mut tags, *a))),
            K::HBegin { a, mid, ty } => (format!("Actor({a})h"), format!("HBegin mid={mid} ty={ty:?}")),
            K::HEnd { a, mid, out, .. } => (format!("Actor({a})h"), format!("HEnd mid={mid} out={out:?}")),
            K::TellResult { a, mid, err } => (format!("Actor({a})h"), format!("TellResult mid={mid} err={err}")),
            K::RunBegin { a, inv } => (format!("Actor({a})h"), format!("RunBegin inv={inv}")),
            K::RunStep { a, inv, step } => (format!("Actor({a})h"), format!("RunStep inv={inv} step={step}")),
            K::RunEnd { a, inv, out, tag: t } => (format!("Actor({a})h"), format!("RunEnd inv={inv} out={out:?} tag={}", tag(*t, &mut tags, *a))),
            K::StopBegin { a, killed } => (format!("Actor({a})h"), format!("StopBegin killed={killed}")),
            K::StopEnd { a, out, tag: t } => (format!("Actor({a})h"), format!("StopEnd out={out:?} tag={}", tag(*t, &mut tags, *a))),
            K::Joined { a, res, state } => {
                let r = match res {
                    JoinRes::Panic(m) => format!("Panic({})", fix_ids(m)),
                    JoinRes::Failed { phase, killed, has_actor, err_tag, err_hook } => {
                        format!("Failed phase={phase} killed={killed} has_actor={has_actor} err={} hook={err_hook}", tag(*err_tag, &mut tags, *a))
                    }
                    other => format!("{other:?}"),
                };
                (format!("Actor({a})h"), format!("Joined res={r} state={state:?}"))
            }
            K::JobBegin { mid } => (format!("Job({mid})"), "begin".into()),
            K::JobEnd { mid } => (format!("Job({mid})"), "end".into()),
            K::ClientDone { c } => (format!("Client({c})"), "done".into()),
            K::ClientPanicked { c, msg } => (format!("Client({c})"), format!("panicked {}", fix_ids(msg))),
            K::Anomaly { prop, what } => ("Anomaly".into(), format!("{prop} {what}")),
            K::Phase(p) => ("Phase".into(), format!("{p}")),
            _ => continue,
        };
        groups.entry(key).or_default().push(format!("t={} {}", e.t, line));
    }
    let mut out = vec![];
    for (k, ls) in groups {
        for l in ls {
            out.push(format!("[{k}] {l}"));
        }
    }
    out
}

pub fn digest(lines: &[String]) -> u64 {
    let mut h: u64 = 0xcbf29ce484222325;
    for l in lines {
        for b in l.as_bytes() {
            h ^= *b as u64;
            h = h.wrapping_mul(0x100000001b3);
        }
        h ^= 0xff;
        h = h.wrapping_mul(0x100000001b3);
    }
    h
}

pub fn first_diff(a: &[String], b: &[String]) -> Option<(usize, String, String)> {
    let n = a.len().max(b.len());
    for i in 0..n {
        let x = a.get(i).cloned().unwrap_or_else(|| "<end of trace>".into());
        let y = b.get(i).cloned().unwrap_or_else(|| "<end of trace>".into());
        if x != y {
            return Some((i, x, y));
        }
    }
    None
}

pub fn c16_labels(v: &View, l: &mut Vec<&'static str>) {
    let mut kinds = HashSet::new();
    let mut timed = false;
    let mut lifecycle = false;
    for o in v.ops.iter().filter(|o| !o.skipped() && matches!(o.src, Src::Client(_))) {
        match &o.kind {
            OpKind::Send { how, ty, .. } => {
                kinds.insert(format!("{:?}{:?}", std::mem::discriminant(how), ty));
                if how.timeout().is_some() {
                    timed = true;
                }
            }
            OpKind::Stop | OpKind::Kill => {
                lifecycle = true;
                kinds.insert(format!("{:?}", o.kind));
            }
            k => {
                kinds.insert(format!("{k:?}"));
            }
        }
    }
    if kinds.len() >= 3 && (timed || lifecycle) {
        l.push("three_wrapper_kinds_with_timeout_or_lifecycle");
    }
    if v.ops.iter().any(|o| o.kind == OpKind::Upgrade && matches!(o.res, Some(Res::Some))) {
        l.push("weak_erased_upgrade");
    }
    if v.ops.iter().any(|o| matches!(o.res, Some(Res::ErrTimeout))) {
        l.push("timeout_through_erased");
    }
}

// ------------------------------------------------------------------------------------------
// C20 — metrics count what happened
// ------------------------------------------------------------------------------------------
pub fn c20(v: &View) -> Vec<Violation> {
    let mut out = vec![];
    let mut last: HashMap<usize, MetricsObs> = HashMap::new();
    let mut after_end: HashMap<usize, MetricsObs> = HashMap::new();
    for e in v.evs {
        let K::MetricsRead { a, m, .. } = &e.k else { continue };
        let av = &v.actors[*a];
        let p = e.seq;
        let entered = av.hooks.iter().filter(|h| h.0 < p && matches!(h.2, HookEv::HBegin(_))).count() as u64;
        let finished = av.hooks.iter().filter(|h| h.0 < p && matches!(h.2, HookEv::HEnd(..))).count() as u64;
        // an actor whose task was torn down mid-handler (panic elsewhere is impossible; runtime drop is after the trace)
        if m.count < finished || m.count > entered {
            out.push(viol("C20", "message-count-wrong", format!("actor {a}: message_count={} at seq {p}; handlers entered={entered}, finished={finished}", m.count)));
        }
        if entered == finished && m.count != entered {
            out.push(viol("C20", "message-count-wrong-when-idle", format!("actor {a}: no handler in progress, message_count={} but {entered} handlers were entered", m.count)));
        }
        if let Some(prev) = last.get(a) {
            if m.count < prev.count || m.max_ns < prev.max_ns {
                out.push(viol("C20", "metrics-decreased", format!("actor {a}: message_count/max went from {}/{} to {}/{}", prev.count, prev.max_ns, m.count, m.max_ns)));
            }
        }
        if entered == finished {
            if m.avg_ns > m.max_ns {
                out.push(viol("C20", "avg-exceeds-max", format!("actor {a}: avg {} ns > max {} ns", m.avg_ns, m.max_ns)));
            }
            let longest = v.handlers.values().flatten().filter(|h| h.a == *a && h.e_seq.map(|x| x < p).unwrap_or(false)).map(|h| h.inner_ns).max().unwrap_or(0);
            if m.max_ns < longest {
                out.push(viol("C20", "max-below-measured", format!("actor {a}: max_processing_time {} ns < {} ns measured inside a handler", m.max_ns, longest)));
            }
            if (m.snap_count, m.snap_avg_ns, m.snap_max_ns) != (m.count, m.avg_ns, m.max_ns) {
                out.push(viol("C20", "snapshot-disagrees", format!("actor {a}: snapshot ({},{},{}) vs accessors ({},{},{})", m.snap_count, m.snap_avg_ns, m.snap_max_ns, m.count, m.avg_ns, m.max_ns)));
            }
            if m.count > 0 && m.max_ns == 0 && longest > 0 {
                out.push(viol("C20", "no-time-recorded", format!("actor {a}: {} messages counted but no processing time", m.count)));
            }
        }
        if av.joined_seq().map(|j| j < p).unwrap_or(false) {
            match after_end.get(a) {
                None => {
                    after_end.insert(*a, m.clone());
                }
                Some(f) => {
                    if f != m {
                        out.push(viol("C20", "final-values-differ-between-handles", format!("actor {a} has ended; one handle reads {f:?}, another {m:?}")));
                    }
                }
            }
        }
        last.insert(*a, m.clone());
    }
    out
}

pub fn c20_labels(v: &View, l: &mut Vec<&'static str>) {
    let mut reads = 0;
    for e in v.evs {
        if let K::MetricsRead { a, m, .. } = &e.k {
            reads += 1;
            let av = &v.actors[*a];
            if av.joined_seq().map(|j| j < e.seq).unwrap_or(false) {
                l.push("read_after_end");
            }
            if m.count >= 3 {
                l.push("read_with_3_messages");
            }
        }
    }
    if reads >= 2 {
        l.push("two_reads");
    }
    if reads > 0 && v.handlers.values().flatten().any(|h| h.inner_ns >= 1_000_000_000) {
        l.push("handler_over_1s_with_read");
    }
    for a in 0..v.actors.len() {
        let av = &v.actors[a];
        let durs: HashSet<u64> = v.handlers.values().flatten().filter(|h| h.a == a).map(|h| h.inner_ns / 100_000).collect();
        let n = v.handlers.values().flatten().filter(|h| h.a == a).count();
        let abnormal = av.panic_seq.is_some() || v.any_kill(a) || av.run_err.is_some();
        let leftovers = v.sends().any(|o| o.a == a && matches!(o.res, Some(Res::Ok)) && o.send().unwrap().0.is_tell() && v.handled_count(o.send().unwrap().1) == 0);
        if n >= 3 && durs.len() >= 2 && (abnormal || leftovers) && reads > 0 {
            l.push("3_messages_2_durations_abnormal_end");
        }
        if n >= 3 && durs.len() >= 2 && reads > 0 {
            l.push("3_messages_2_durations");
        }
    }
    l.sort();
    l.dedup();
}

pub fn c18_labels(v: &View, l: &mut Vec<&'static str>) {
    let ask = v.sends().any(|o| o.send().unwrap().0.is_ask());
    let timed = v.sends().any(|o| o.send().unwrap().0.timeout().is_some());
    let mut ending = false;
    for a in 0..v.actors.len() {
        let av = &v.actors[a];
        if av.panic_seq.is_some() || av.run_err.is_some() || v.any_kill(a) || matches!(av.start_end, Some((_, _, Out::Err, _))) {
            ending = true;
        }
    }
    let mut cl = vec![];
    m1::c04_labels(v, &mut cl);
    if cl.contains(&"cause_during_hook") || cl.contains(&"two_causes_within_2ms") {
        ending = true;
    }
    if ask && timed && ending {
        l.push("ask_and_timeout_and_nontrivial_end");
    }
    if ask {
        l.push("has_ask");
    }
    if timed {
        l.push("has_timeout_op");
    }
    if ask_edges(v).len() >= 1 {
        l.push("actor_context_ask");
    }
}

// ------------------------------------------------------------------------------------------
// C19 (runtime half): on_tell_result exactly once after a tell, never after an ask
// ------------------------------------------------------------------------------------------
pub fn c19_runtime(v: &View) -> Vec<Violation> {
    let mut out = vec![];
    for o in v.sends() {
        let (how, mid, _) = o.send().unwrap();
        let Some(h) = v.handlers.get(&mid).map(|h| &h[0]) else { continue };
        // only handlers that returned a value have a result to report
        let Some(outc) = h.out else { continue };
        if outc == Out::Panic {
            continue;
        }
        let n = v.tell_results.get(&mid).copied().unwrap_or(0);
        let want = if how.is_tell() { 1 } else { 0 };
        if n != want {
            out.push(viol(
                "C19",
                "on-tell-result-count",
                format!("{how:?} of message {mid}: on_tell_result was invoked {n} time(s) after the handler returned, expected {want}"),
            ));
        }
    }
    // the value given to on_tell_result is the handler's return value
    for e in v.evs {
        if let K::TellResult { mid, err, .. } = &e.k {
            if let Some(h) = v.handlers.get(mid).map(|h| &h[0]) {
                if h.out.map(|o| (o == Out::Err) != *err).unwrap_or(false) {
                    out.push(viol("C19", "on-tell-result-value", format!("message {mid}: on_tell_result saw err={err} but the handler returned {:?}", h.out)));
                }
            }
        }
    }
    out
}

pub fn c19_labels(v: &View, l: &mut Vec<&'static str>) {
    let mut tells = 0;
    let mut asks = 0;
    for o in v.sends() {
        let (how, mid, _) = o.send().unwrap();
        if v.handled_count(mid) > 0 {
            if how.is_tell() {
                tells += 1;
            } else {
                asks += 1;
            }
        }
    }
    if tells >= 1 && asks >= 1 {
        l.push("handled_tell_and_ask");
    }
    if v.evs.iter().any(|e| matches!(&e.k, K::TellResult { err: true, .. })) {
        l.push("tell_result_err_value");
    }
}
