//! Secondary driver: coverage-guided mutation of choice tapes (libFuzzer). The bytes are decoded
//! through the same `Choices` abstraction as the proptest driver, the scenario is executed in the
//! deterministic simulator, and the property's own monitor runs inside the target - the oracle is
//! in the target, not just crash detection.
#![no_main]
#![allow(dead_code, unused_imports)]

#[path = "../../src/actor.rs"]
mod actor;
#[path = "../../src/c19.rs"]
mod c19;
#[path = "../../src/capture.rs"]
mod capture;
#[path = "../../src/choices.rs"]
mod choices;
#[path = "../../src/client.rs"]
mod client;
#[path = "../../src/extras.rs"]
mod extras;
#[path = "../../src/gen.rs"]
mod gen;
#[path = "../../src/laws.rs"]
mod laws;
#[path = "../../src/macrogen.rs"]
mod macrogen;
#[path = "../../src/monitors.rs"]
mod monitors;
#[path = "../../src/monitors2.rs"]
mod monitors2;
#[path = "../../src/monitors3.rs"]
mod monitors3;
#[path = "../../src/props.rs"]
mod props;
#[path = "../../src/races.rs"]
mod races;
#[path = "../../src/rt.rs"]
mod rt;
#[path = "../../src/runner.rs"]
mod runner;
#[path = "../../src/scenario.rs"]
mod scenario;
#[path = "../../src/shrink.rs"]
mod shrink;
#[path = "../../src/sim.rs"]
mod sim;
#[path = "../../src/trace.rs"]
mod trace;
#[path = "../../src/view.rs"]
mod view;

pub static FEATURES: &str = "fuzz";

use choices::{ByteTape, Choices};
use libfuzzer_sys::fuzz_target;
use std::sync::atomic::{AtomicU64, Ordering};
use std::sync::OnceLock;

struct Ctx {
    def: props::PropDef,
    known: runner::KnownFile,
    out: String,
}

static CTX: OnceLock<Ctx> = OnceLock::new();
static CASES: AtomicU64 = AtomicU64::new(0);
static NONTRIVIAL: AtomicU64 = AtomicU64::new(0);
static DISTINCT: std::sync::Mutex<Option<std::collections::HashSet<u64>>> = std::sync::Mutex::new(None);

fn ctx() -> &'static Ctx {
    CTX.get_or_init(|| {
        trace::install_panic_hook();
        capture::install();
        let prop = std::env::var("VH_FUZZ_PROP").unwrap_or_else(|_| "C01".into());
        let mut def = props::get(&prop, true).expect("property");
        if !cfg!(feature = "deadlock-detection") {
            def.profiles.retain(|p| !p.name.ends_with("-cyclic"));
        }
        Ctx {
            def,
            known: runner::KnownFile::load(&std::env::var("VH_KNOWN").unwrap_or_else(|_| "/verif/known_findings.json".into())),
            out: std::env::var("VH_REPLAY_OUT").unwrap_or_else(|_| "/verif/replays".into()),
        }
    })
}

fuzz_target!(|data: &[u8]| {
    let c = ctx();
    let mut tape = ByteTape { data, pos: 0 };
    let pi = tape.below(c.def.profiles.len() as u32) as usize;
    let sc = gen::gen(&c.def.profiles[pi], &mut tape);
    let r = runner::run_case(&c.def, &sc);
    let n = CASES.fetch_add(1, Ordering::Relaxed) + 1;
    if r.nontrivial {
        let mut g = DISTINCT.lock().unwrap();
        if g.get_or_insert_with(Default::default).insert(sc.hash64()) {
            NONTRIVIAL.fetch_add(1, Ordering::Relaxed);
        }
    }
    if n % 2000 == 0 {
        eprintln!("FUZZSTAT cases={} nontrivial={}", n, NONTRIVIAL.load(Ordering::Relaxed));
    }
    if let Some(v) = r.violations.iter().find(|v| c.known.matches(v).is_none()) {
        // shrink structurally, write the replay file, then crash so that libFuzzer stops
        let kind = v.kind;
        let mut pred = |s: &scenario::Scenario| runner::run_case(&c.def, s).violations.iter().any(|x| x.kind == kind && c.known.matches(x).is_none());
        let (min, _) = shrink::shrink(&sc, &mut pred, 3000);
        let rr = runner::run_case(&c.def, &min);
        let vv = rr.violations.iter().find(|x| x.kind == kind).cloned().unwrap_or_else(|| v.clone());
        let rf = runner::ReplayFile { property: c.def.id.to_string(), kind: vv.kind.to_string(), detail: vv.detail.clone(), scenario: min.clone(), trace: runner::trace_lines(&rr.evs) };
        let _ = std::fs::create_dir_all(&c.out);
        let path = format!("{}/{}-{:016x}.json", c.out, c.def.id, min.hash64());
        let _ = std::fs::write(&path, serde_json::to_string_pretty(&rf).unwrap());
        eprintln!("VIOLATION property={} replay={}", c.def.id, path);
        eprintln!("  kind={} detail={}", vv.kind, vv.detail);
        eprintln!("FUZZSTAT cases={} nontrivial={}", n, NONTRIVIAL.load(Ordering::Relaxed));
        std::process::abort();
    }
});
