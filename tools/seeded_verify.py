#!/usr/bin/env python3
"""Confirm a seeded change produced by an independent sub-agent and run the checks against it.

usage: tools/seeded_verify.py <dir-with-SEEDED> <name> <property> [check ids to run, default: all]

Steps (all inside the scratch worktree, never in /repo):
  1. patch applies, crate builds (default + all features)
  2. demonstration fails with the change
  3. existing test suite passes with the change (demo removed)
  4. demonstration passes without the change
  5. every requested ./check <ID> quick is run with VERIF_REPO=<worktree with the change>
Writes /verif/seeded/<name>/{patch.diff,demo.rs,meta.json}.
"""
import json, os, shutil, subprocess, sys, time

VERIF = os.path.dirname(os.path.dirname(os.path.abspath(__file__)))
ALL = ["C%02d" % i for i in range(1, 21)]

def run(cmd, cwd, env=None, timeout=3600):
    p = subprocess.run(cmd, cwd=cwd, env=env, stdout=subprocess.PIPE, stderr=subprocess.STDOUT, text=True, timeout=timeout)
    return p.returncode, p.stdout

def main():
    wt, name, prop = sys.argv[1], sys.argv[2], sys.argv[3]
    checks = sys.argv[4:] or ALL
    sd = os.path.join(wt, "SEEDED")
    env = dict(os.environ, CARGO_TARGET_DIR=os.path.join(wt, "target"), CARGO_NET_OFFLINE="true")
    meta = {"name": name, "breaks_property": prop, "ran": []}
    feats = []
    demo_src = open(os.path.join(sd, "demo.rs")).read()
    readme = open(os.path.join(sd, "README.md")).read() if os.path.exists(os.path.join(sd, "README.md")) else ""
    for f in ("all-features", "deadlock-detection", "test-utils", "metrics", "tracing"):
        pass
    # feature flags the demo needs: taken from the README (first line mentioning --features / --all-features)
    demo_flags = []
    if "--all-features" in readme and ("demo" in readme.lower()):
        for l in readme.splitlines():
            if "seeded" in l.lower() or "demo" in l.lower():
                if "--all-features" in l:
                    demo_flags = ["--all-features"]
                    break
                if "--features" in l:
                    w = l.split("--features")[1].split()[0].strip("`\"',")
                    demo_flags = ["--features", w]
                    break
    if len(sys.argv) > 1 and os.environ.get("DEMO_FLAGS"):
        demo_flags = os.environ["DEMO_FLAGS"].split()
    meta["demo_flags"] = demo_flags
    run(["git", "checkout", "--", "."], wt)
    for f in ("tests/seeded_demo.rs",):
        if os.path.exists(os.path.join(wt, f)):
            os.remove(os.path.join(wt, f))
    rc, out = run(["git", "apply", "--check", os.path.join(sd, "patch.diff")], wt)
    meta["patch_applies"] = rc == 0
    if rc != 0:
        print(out); print(json.dumps(meta, indent=1)); return 1
    run(["git", "apply", os.path.join(sd, "patch.diff")], wt)
    rc1, o1 = run(["cargo", "build", "--offline"], wt, env)
    rc2, o2 = run(["cargo", "build", "--offline", "--all-features"], wt, env)
    meta["builds"] = rc1 == 0 and rc2 == 0
    meta["ran"].append("cargo build --offline [--all-features] (with change): %s" % ("ok" if meta["builds"] else "FAILED"))
    if not meta["builds"]:
        print(o1[-2000:], o2[-2000:])
    shutil.copy(os.path.join(sd, "demo.rs"), os.path.join(wt, "tests", "seeded_demo.rs"))
    rc, out = run(["cargo", "test", "--offline", "--test", "seeded_demo"] + demo_flags, wt, env)
    meta["demo_fails_with_change"] = rc != 0 and "test result: FAILED" in out
    meta["ran"].append("cargo test --offline --test seeded_demo %s (with change): exit %d" % (" ".join(demo_flags), rc))
    os.remove(os.path.join(wt, "tests", "seeded_demo.rs"))
    t0 = time.time()
    rc, out = run(["cargo", "test", "--workspace", "--no-fail-fast", "--offline"], wt, env)
    nfail = out.count("test result: FAILED")
    meta["existing_suite_passes_with_change"] = rc == 0 and nfail == 0
    meta["ran"].append("cargo test --workspace --no-fail-fast --offline (with change, demo removed): exit %d in %.0fs" % (rc, time.time() - t0))
    if rc != 0:
        print(out[-3000:])
    # the checks, against the worktree with the change applied
    caught = {}
    for c in checks:
        e2 = dict(os.environ, VERIF_REPO=wt)
        t0 = time.time()
        rc, out = run([os.path.join(VERIF, "check"), c, "quick"], VERIF, e2)
        kind = ""
        for l in out.splitlines():
            if l.strip().startswith("kind="):
                kind = l.strip()[:300]
                break
        caught[c] = {"exit": rc, "caught": rc == 1, "first_violation": kind, "s": round(time.time() - t0, 1)}
        print(f"  {name}: check {c}: exit {rc} {kind[:140]}")
    meta["checks"] = caught
    meta["caught_by"] = [c for c, v in caught.items() if v["caught"]]
    # without the change
    run(["git", "checkout", "--", "."], wt)
    shutil.copy(os.path.join(sd, "demo.rs"), os.path.join(wt, "tests", "seeded_demo.rs"))
    rc, out = run(["cargo", "test", "--offline", "--test", "seeded_demo"] + demo_flags, wt, env)
    meta["demo_passes_without_change"] = rc == 0
    meta["ran"].append("cargo test --offline --test seeded_demo %s (without change): exit %d" % (" ".join(demo_flags), rc))
    os.remove(os.path.join(wt, "tests", "seeded_demo.rs"))
    meta["needs_to_manifest"] = ""
    meta["confirmed"] = all([meta["patch_applies"], meta["builds"], meta["demo_fails_with_change"], meta["existing_suite_passes_with_change"], meta["demo_passes_without_change"]])
    dst = os.path.join(VERIF, "seeded", name)
    os.makedirs(dst, exist_ok=True)
    shutil.copy(os.path.join(sd, "patch.diff"), os.path.join(dst, "patch.diff"))
    shutil.copy(os.path.join(sd, "demo.rs"), os.path.join(dst, "demo.rs"))
    if readme:
        open(os.path.join(dst, "AGENT_README.md"), "w").write(readme)
    json.dump(meta, open(os.path.join(dst, "meta.json"), "w"), indent=1)
    print(json.dumps({k: v for k, v in meta.items() if k != "checks"}, indent=1))
    # remove scratch build output of the checks for this worktree
    import hashlib
    tag = hashlib.sha1(os.path.abspath(wt).encode()).hexdigest()[:8]
    for d in os.listdir(os.path.join(VERIF, "target")):
        if d.endswith("-" + tag):
            shutil.rmtree(os.path.join(VERIF, "target", d), ignore_errors=True)
    return 0

if __name__ == "__main__":
    sys.exit(main())
