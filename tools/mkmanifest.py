#!/usr/bin/env python3
"""Regenerates MANIFEST.json from the table below (keeps the manifest consistent with ./check)."""
import json, os
VERIF = os.path.dirname(os.path.dirname(os.path.abspath(__file__)))

SIM_NOTE = ("Trusted base: the harness (scripted actor, client interpreter, trace recorder, monitors), tokio's paused-clock "
            "current_thread runtime (test-util) and proptest. Verdict = held on every generated scenario within the stated bounds; no absence proof.")

CHECKS = {
 "C01": ("generated concurrent scenarios in a deterministic virtual-time simulation of the real rsactor code; history invariant over uniquely tagged messages (handled <=1; rejected never; accepted-before-stop/drop exactly once before on_stop; nothing pending on a live idle actor at quiescence)", "5/C01"),
 "C02": ("generated multi-sender scenarios on capacity 1-3 mailboxes; oracle: no inversion between real-time order of completed sends and handler-entry order; stop() position in the same order", "5/C02"),
 "C03": ("generated concurrent askers against actors ending by every cause; oracle: reply value carries request id + per-handler nonce that must match the trace; ask_join vs scripted job outcome; no operation pending on an ended actor at quiescence; later sends fail at once", "5/C03"),
 "C04": ("generated termination causes x hook outcomes x phases; oracle: per-actor regular language over hook events, on_stop exactly-once rules, killed flag iff a kill signal could have been consumed", "5/C04"),
 "C05": ("same generator as C04; oracle: expected ActorResult recomputed from the hook trace alone (phase, killed, error tag, presence and state of the instance, panic payload) + accessor laws on every real result", "5/C05"),
 "C06": ("generated kill() instants with 0-64 queued messages in every actor phase; oracle: kill never fails/blocks, <=1 handler entry after kill returned, on_stop(killed=true) with no idle gap, result killed=true, queued asks fail", "5/C06"),
 "C07": ("generated clone/drop/downgrade/upgrade/erase histories; model = number of strong handles the harness holds; oracle at quiescence: ended gracefully iff unreferenced or stopped; still serving otherwise (probe ask/tell)", "5/C07"),
 "C08": ("generated on_run scripts with message arrivals around their await points; oracle at every on_run progress event: no accepted-unhandled message, no returned kill; Ok(true) re-arms, Ok(false) silences for good without ending the actor, Err -> on_stop(false)", "5/C08"),
 "C09": ("generated capacities/senders/gates; occupancy lower and upper bounds recomputed from the trace at every event and every quiescent instant (accepted <= capacity; a waiting sender implies a full mailbox); Send errors only on ending actors", "5/C09"),
 "C10": ("generated timeout values (0..40 ms odd/even, huge) vs natural completion instants; all comparisons in exact virtual milliseconds: Ok by the deadline at the completion instant, Timeout exactly at the deadline and only if nothing completed/failed strictly before, other failures at the instant of their cause; is_retryable on every error value seen", "5/C10"),
 "C11": ("generated probes of identity/is_alive/upgrade through every derived handle kind at every lifecycle phase; oracle from the trace (phase known) and the harness-side strong-handle count", "5/C11"),
}

PENDING = {
 "C12": "check under construction in this round (planned: DESIGN.md section 5/C12, fault injection in multi-actor simulations)",
 "C13": "check under construction in this round (planned: DESIGN.md section 5/C13, captured tracing events vs returned errors)",
 "C14": "check under construction in this round (planned: DESIGN.md section 5/C14)",
 "C15": "check under construction in this round (planned: DESIGN.md section 5/C15)",
 "C16": "check under construction in this round (planned: DESIGN.md section 5/C16, direct-vs-erased differential)",
 "C17": "check under construction in this round (planned: DESIGN.md section 5/C17, real-thread engine)",
 "C18": "check under construction in this round (planned: DESIGN.md section 5/C18, differential across feature builds)",
 "C19": "check under construction in this round (planned: DESIGN.md section 5/C19, generated macro corpus)",
 "C20": "check under construction in this round (planned: DESIGN.md section 5/C20)",
}

def main():
    extra = {}
    p = os.path.join(VERIF, "tools", "manifest_extra.json")
    if os.path.exists(p):
        extra = json.load(open(p))
    checks = []
    table = dict(CHECKS)
    for k, v in extra.get("checks", {}).items():
        table[k] = (v["technique"], v["design_ref"], v.get("note"), v.get("engine"))
    for pid in sorted(table):
        t = table[pid]
        tech, ref = t[0], t[1]
        note = t[2] if len(t) > 2 and t[2] else SIM_NOTE
        engine = t[3] if len(t) > 3 and t[3] else "sim"
        checks.append({
            "property_id": pid,
            "quick_cmd": f"./check {pid} quick",
            "thorough_cmd": f"./check {pid} thorough",
            "evidence_file": f"/verif/evidence/{pid}.json",
            "replay_cmd_template": f"./check {pid} --replay {{path}}",
            "engine": engine,
            "level_claimed": {
                "category": "exploration",
                "text": "Property-based search: " + tech + ". Held on everything generated (counts, class distribution and samples in the evidence file); shrunk counterexamples become replay files that every later run executes first.",
                "design_ref": "DESIGN.md section " + ref,
            },
            "level_note": note,
            "technique": "property-based testing (proptest choice tapes -> scenario generator -> deterministic simulation -> trace oracle)" if engine == "sim" else t[0][:120],
        })
    pend = {k: v for k, v in PENDING.items() if k not in table}
    man = {
        "version": 1,
        "setup_cmd": "./check setup",
        "hooks": {
            "guard": "--cfg rsactor_verif",
            "enable": "RUSTFLAGS='--cfg rsactor_verif' when ./check builds the `full` harness variant (rsactor features tracing,metrics,test-utils,deadlock-detection)",
            "baseline_off_cmd": "cd /repo && cargo nextest run --workspace --no-fail-fast --test-threads 8 --offline || cargo test --workspace --no-fail-fast --offline",
            "source_commits": extra.get("hook_commits", []),
            "add_only": True,
        },
        "engines": [
            {"name": "sim", "path": "harness/src/sim.rs", "serves_properties": sorted(k for k in table if (len(table[k]) < 4 or not table[k][3] or table[k][3] == "sim")), "kind_free_text": "deterministic virtual-time simulation (paused current_thread tokio runtime) of generated scenarios against the real rsactor crate; proptest generates and shrinks the choice tape; pure trace monitors decide"},
        ] + extra.get("engines", []),
        "checks": checks,
        "notes": "All checks: exit 0 = held, 1 = VIOLATION line printed, 2 = inconclusive (build failure against an API-incompatible tree, watchdog). VERIF_SEED seeds every generator. Sensitivity results: DESIGN.md section 11.",
        "not_applicable": [{"property_id": k, "reason": v} for k, v in sorted(pend.items())],
    }
    json.dump(man, open(os.path.join(VERIF, "MANIFEST.json"), "w"), indent=1)
    print("wrote MANIFEST.json with", len(checks), "checks,", len(pend), "not_applicable")

if __name__ == "__main__":
    main()
