#!/usr/bin/env python3
"""Regenerates MANIFEST.json from the table below (keeps the manifest consistent with ./check)."""
import json, os
VERIF = os.path.dirname(os.path.dirname(os.path.abspath(__file__)))

SIM_NOTE = ("Trusted base: the harness (scripted actor, client interpreter, trace recorder, monitors), tokio's paused-clock "
            "current_thread runtime (test-util) and proptest. Verdict = held on every generated scenario within the stated bounds; no absence proof.")

CHECKS = {
 "C01": ("generated concurrent scenarios in a deterministic virtual-time simulation of the real rsactor code; history invariant over uniquely tagged messages (handled <=1; rejected never; accepted-before-stop/drop exactly once before on_stop; nothing pending on a live idle actor at quiescence); plus real-thread race experiments (burst of senders released together, burst against an actor parked behind a gate, last handle dropped on another thread): accepted tells handled exactly once, rejected ones never", "5/C01"),
 "C02": ("generated multi-sender scenarios on capacity 1-3 mailboxes; oracle: no inversion between real-time order of completed sends and handler-entry order; stop() position in the same order; plus real-thread experiments: threads stopping the same actor at the same instant and then sending (nothing sent after an own stop() returned Ok is handled; tells accepted before any stop() are), bursts of senders (per-sender order)", "5/C02"),
 "C03": ("generated concurrent askers against actors ending by every cause; oracle: reply value carries request id + per-handler nonce that must match the trace; ask_join vs scripted job outcome; no operation pending on an ended actor at quiescence; later sends fail at once; plus a generated real-thread experiment (4 lanes x streams of asks from 1-12 askers straddling the moment the actor ends by panic / stop / kill / last drop: every ask must return)", "5/C03"),
 "C04": ("generated termination causes x hook outcomes x phases; oracle: per-actor regular language over hook events, on_stop exactly-once rules, killed flag iff a kill signal could have been consumed; plus real-thread drop / stop races (last handle dropped on another thread, several threads stopping at once: on_stop exactly once with killed=false; threads killing an actor nobody stops: on_stop(true) exactly once)", "5/C04"),
 "C05": ("same generator as C04; oracle: expected ActorResult recomputed from the hook trace alone (phase, killed, error tag, presence and state of the instance, panic payload) + accessor laws on every real result; plus real-thread drop / stop races (result Completed{killed:false} when nobody killed, Completed{killed:true} when only kill() ended it)", "5/C05"),
 "C06": ("generated kill() instants with 0-64 queued messages in every actor phase; oracle: kill never fails/blocks, <=1 handler entry after kill returned, on_stop(killed=true) with no idle gap, result killed=true, queued asks fail (once the hook in progress finishes); plus a generated real-thread experiment (2-6 OS threads calling kill() on one actor at the same instant, kill() hammered while the actor is stopped and joined: every call Ok, JoinHandle resolves, killed=true; kill landing just as an actor goes idle after a message is never lost)", "5/C06"),
 "C07": ("generated clone/drop/downgrade/upgrade/erase histories; model = number of strong handles the harness holds; oracle at quiescence: ended gracefully iff unreferenced or stopped; still serving otherwise (probe ask/tell); plus a drop-race experiment (last handle of an actor with a re-arming on_run dropped on another thread: on_stop(false) exactly once, Completed{killed:false}) and a real-thread supplement (multi_thread runtime, OS-thread clients): a referenced, never-stopped actor has not ended and does not refuse probes; after the epilogue - stop() on every other actor, every handle dropped - each idle actor has ended gracefully", "5/C07"),
 "C08": ("generated on_run scripts with message arrivals around their await points; oracle at every on_run progress event: no accepted-unhandled message, no returned kill; Ok(true) re-arms, Ok(false) silences for good without ending the actor, Err -> on_stop(false); plus a real-thread re-arm experiment (ticking on_run; after every message sent from outside the runtime the ticks must continue)", "5/C08"),
 "C09": ("generated capacities/senders/gates; occupancy lower and upper bounds recomputed from the trace at every event and every quiescent instant (accepted <= capacity; a waiting sender implies a full mailbox); Send errors only on ending actors; plus a default-capacity race (child process per case, 2-8 threads calling set_default_mailbox_capacity at once: exactly one winner, spawn() uses its value) and the parked-burst experiment (tells accepted while the actor is parked <= free slots)", "5/C09"),
 "C10": ("generated timeout values (0..40 ms odd/even, huge) vs natural completion instants; all comparisons in exact virtual milliseconds: Ok by the deadline at the completion instant, Timeout exactly at the deadline and only if nothing completed/failed strictly before, other failures at the instant of their cause; is_retryable on every error value seen; plus a real-thread parked-burst experiment: the actor sits in a handler behind a gate only the harness opens, 2-8 threads released together call the timeout variants; each must return within timeout + 10 s while the gate is still closed, Timeout never early, nothing but Ok / Timeout; and a hot loop of timed calls against an actor that answers at once: never Timeout)", "5/C10"),
 "C11": ("generated probes of identity/is_alive/upgrade through every derived handle kind at every lifecycle phase; oracle from the trace (phase known) and the harness-side strong-handle count; plus a generated id race (2-16 threads x 1-300 spawns) and a real-thread supplement (identity through every handle, is_alive before the actor began to end / after its JoinHandle resolved, upgrade while a strong handle is provably held throughout)", "5/C11"),
}

CHECKS.update({
 "C12": ("fault injection (panic / error in a generated hook invocation of one actor of a 2-4 actor system with peer asks/tells); every other monitor is applied to the whole system plus victim-specific checks, a fresh actor spawned afterwards, dead-letter accounting and (deadlock-detection build) wait-for-graph residue / mutex health; plus the real-thread ask-vs-end race restricted to the failing exit (handler panic): every ask issued around the failure returns", "5/C12"),
 "C13": ("generated operations against actors in every lifecycle state; dead-letter records captured by an in-process tracing subscriber are matched one-to-one (points-to-intervals matching) against failed operations: target id, message type name, reason <-> error kind, operation label; dead_letter_count() delta == number of failures; plus a generated real-thread experiment (2-16 OS threads x 50-450 failing operations each: counter delta == records == failures; photo finish: replies arriving within microseconds of the ask_with_timeout deadline, counter delta == calls that returned an error)", "5/C13"),
 "C14": ("generated ask topologies (cycles of length 1..5 through handlers and lifecycle hooks, ask and ask_with_timeout); logical wait-for graph of unanswered asks rebuilt from the trace; every ask that would close a cycle must panic naming every participant and nobody may be left waiting; plus a real-thread ring experiment (k actors each asking the next from a handler, all k asks lined up at the same instant on different worker threads: every outer ask returns, every actor ends, a self-ask fails)", "5/C14"),
 "C15": ("same topology generator, acyclic-in-time patterns with timeouts / cancellations / failures; every deadlock panic must be justified by a chain of unanswered asks; the real wait-for graph (verification hook) sampled at every odd virtual millisecond must equal the set of asks in flight; plus real-thread ring / line experiments (a line of asks started at the same instant must never panic; the real wait-for graph is empty after every round; A asks B, B answers and then asks A while other threads keep the graph lock busy: nobody panics)", "5/C15"),
 "C16": ("metamorphic differential: each scenario run with plain handles and with every handle as a bundle of type-erased trait objects and every operation routed through a pseudo-randomly chosen equivalent erased path; canonical traces must be equal; plus a real-thread weak-pin experiment (threads hammering is_alive / identity / clone of each erased weak handle while the only strong reference is dropped: upgrade() is None at once, the actor ends)", "5/C16"),
 "C18": ("differential across builds: the same scenarios run by harness builds with each feature subset and by a default-feature reference process; per-task canonical traces must be identical for every case without a logical ask cycle", "5/C18"),
 "C19": ("generated programs (grammar over actor shape, generics, derive/manual, handler attribute x return spelling x message kind x parameter spelling, negative programs) compiled offline against the real macros and run; observations compared with the documented decision table; plus the runtime half (on_tell_result exactly once after tell, never after ask) in the simulator", "5/C19"),
 "C20": ("message sequences with really sleeping handlers, metrics read through strong / cloned / weak-upgraded handles during and after the run; oracle: message_count vs handler entries, monotonicity, avg<=max, max>=measured, snapshot==accessors, same final values through every handle; plus a real-thread readers experiment (1-6 OS threads hammering snapshot and accessors while timed messages are handled: count monotone per reader; at quiescence count, avg<=max, max>=measured, snapshot==accessors, same through clone and weak-upgraded handle)", "5/C20"),
})
RT_NOTE = ("Real-thread engine: the OS schedule is not owned or reproducible; only interleaving-sound oracles (logical stamps taken under one lock, multiset relations, "
           "one-sided wall-clock bounds with 10 s slack, 1 ms tolerance on 'never early'). Trusted base: harness, tokio, proptest. Weaker evidence than the simulator's.")
EXTRA = {
 "C17": {"technique": "generated mixes of OS-thread / spawn_blocking / task clients issuing blocking_tell/blocking_ask (with and without timeout), deprecated aliases and async calls against live / slow / gated / full / stopped / dying actors on a multi_thread runtime; delivery, ordering by logical stamps, reply integrity, error kinds, dead-letter multiset, one-sided timeout bounds; plus race experiments (ask vs end of actor; bursts of blocking / deprecated / async callers released together into a small mailbox; bursts of timeout variants against a parked actor)", "design_ref": "5/C17", "note": RT_NOTE, "engine": "rt"},
}
PENDING = {}

def main():
    extra = {}
    p = os.path.join(VERIF, "tools", "manifest_extra.json")
    if os.path.exists(p):
        extra = json.load(open(p))
    checks = []
    table = dict(CHECKS)
    for k, v in list(EXTRA.items()) + list(extra.get("checks", {}).items()):
        table[k] = (v["technique"], v["design_ref"], v.get("note"), v.get("engine"))
    for pid in sorted(table):
        t = table[pid]
        tech, ref = t[0], t[1]
        note = t[2] if len(t) > 2 and t[2] else SIM_NOTE
        engine = t[3] if len(t) > 3 and t[3] else "sim"
        checks.append({
            "property_id": pid,
            "quick_cmd": f"./check {pid} quick",
            "thorough_cmd": f"./check {pid} thorough",
            "evidence_file": f"/verif/evidence/{pid}.json",
            "replay_cmd_template": f"./check {pid} --replay {{path}}",
            "engine": engine,
            "level_claimed": {
                "category": "exploration",
                "text": "Property-based search: " + tech + ". Held on everything generated (counts, class distribution and samples in the evidence file); shrunk counterexamples become replay files that every later run executes first.",
                "design_ref": "DESIGN.md section " + ref,
            },
            "level_note": note,
            "technique": "property-based testing (proptest choice tapes -> scenario generator -> deterministic simulation -> trace oracle)" if engine == "sim" else t[0][:120],
        })
    pend = {k: v for k, v in PENDING.items() if k not in table}
    man = {
        "version": 1,
        "setup_cmd": "./check setup",
        "hooks": {
            "guard": "--cfg rsactor_verif",
            "enable": "RUSTFLAGS='--cfg rsactor_verif' when ./check builds the `full` harness variant (rsactor features tracing,metrics,test-utils,deadlock-detection)",
            "baseline_off_cmd": "cd /repo && cargo nextest run --workspace --no-fail-fast --test-threads 8 --offline || cargo test --workspace --no-fail-fast --offline",
            "source_commits": extra.get("hook_commits", []),
            "add_only": True,
        },
        "engines": [
            {"name": "sim", "path": "harness/src/sim.rs", "serves_properties": sorted(k for k in table if (len(table[k]) < 4 or not table[k][3] or table[k][3] == "sim")), "kind_free_text": "deterministic virtual-time simulation (paused current_thread tokio runtime) of generated scenarios against the real rsactor crate; proptest generates and shrinks the choice tape; pure trace monitors decide"},
            {"name": "rt", "path": "harness/src/rt.rs", "serves_properties": ["C17", "C11"], "kind_free_text": "real-thread engine: multi_thread tokio runtime, OS threads and spawn_blocking closures, blocking API; also the concurrent id-allocation race for C11"},
            {"name": "macrogen", "path": "harness/src/macrogen.rs", "serves_properties": ["C19"], "kind_free_text": "grammar-based generator of actor programs compiled offline against the real rsactor-derive macros (positive corpus crate + negative programs)"},
            {"name": "extras", "path": "harness/src/extras.rs", "serves_properties": ["C05", "C09", "C11"], "kind_free_text": "generated non-scenario checks: ActorResult accessor laws (exhaustive + generated), default-capacity call sequences in fresh subprocesses, capacity-0 rejection, concurrent id allocation"},
        ] + extra.get("engines", []),
        "checks": checks,
        "notes": "All checks: exit 0 = held, 1 = VIOLATION line printed, 2 = inconclusive (build failure against an API-incompatible tree, watchdog). VERIF_SEED seeds every generator. Sensitivity results: DESIGN.md section 11.",
        "not_applicable": [{"property_id": k, "reason": v} for k, v in sorted(pend.items())],
    }
    json.dump(man, open(os.path.join(VERIF, "MANIFEST.json"), "w"), indent=1)
    print("wrote MANIFEST.json with", len(checks), "checks,", len(pend), "not_applicable")

if __name__ == "__main__":
    main()
