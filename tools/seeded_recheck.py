#!/usr/bin/env python3
"""Re-run selected checks against an already confirmed seeded change and update its meta.json.
usage: tools/seeded_recheck.py <name> <check ids...>"""
import json, os, shutil, subprocess, sys, hashlib, time
VERIF = os.path.dirname(os.path.dirname(os.path.abspath(__file__)))
name, checks = sys.argv[1], sys.argv[2:]
d = os.path.join(VERIF, "seeded", name)
meta = json.load(open(os.path.join(d, "meta.json")))
wt = f"/tmp/seed/recheck-{name[:20]}"
subprocess.run(["git", "-C", "/repo", "worktree", "remove", "--force", wt], stdout=subprocess.DEVNULL, stderr=subprocess.DEVNULL)
subprocess.run(["git", "-C", "/repo", "worktree", "add", "-q", "--detach", wt, "HEAD"], check=True)
subprocess.run(["git", "apply", os.path.join(d, "patch.diff")], cwd=wt, check=True)
for c in checks:
    t0 = time.time()
    p = subprocess.run([os.path.join(VERIF, "check"), c, "quick"], cwd=VERIF, env=dict(os.environ, VERIF_REPO=wt), stdout=subprocess.PIPE, stderr=subprocess.STDOUT, text=True)
    kind = ""
    for l in p.stdout.splitlines():
        if l.strip().startswith("kind="):
            kind = l.strip()[:300]
            break
    meta["checks"][c] = {"exit": p.returncode, "caught": p.returncode == 1, "first_violation": kind, "s": round(time.time() - t0, 1)}
    print(name, c, p.returncode, kind[:150])
meta["caught_by"] = sorted(c for c, v in meta["checks"].items() if v["caught"])
meta.setdefault("ran", []).append("re-ran checks %s against the change (tools/seeded_recheck.py)" % ",".join(checks))
json.dump(meta, open(os.path.join(d, "meta.json"), "w"), indent=1)
subprocess.run(["git", "-C", "/repo", "worktree", "remove", "--force", wt])
tag = hashlib.sha1(os.path.abspath(wt).encode()).hexdigest()[:8]
for x in os.listdir(os.path.join(VERIF, "target")):
    if x.endswith("-" + tag):
        shutil.rmtree(os.path.join(VERIF, "target", x), ignore_errors=True)
