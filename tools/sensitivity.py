#!/usr/bin/env python3
"""Sensitivity runs: apply one deliberate breakage at a time to a scratch copy of the repository
and run the quick tier of the named properties against it (VERIF_REPO). Scratch copy lives under
/tmp only while this script runs.

usage: tools/sensitivity.py [name-substring ...]
"""
import json, os, shutil, subprocess, sys, time

VERIF = os.path.dirname(os.path.dirname(os.path.abspath(__file__)))
SCRATCH = "/tmp/vmut/repo"

# (name, file, old, new, [properties expected to catch it])
MUTANTS = [
    ("no-biased", "src/actor.rs", "            biased;\n", "", ["C06", "C08", "C04"]),
    ("mailbox-before-terminate", "src/actor.rs", None, None, ["C06"]),  # placeholder handled below
]

def load_mutants():
    path = os.path.join(VERIF, "tools", "mutants.json")
    return json.load(open(path))

def main():
    sel = sys.argv[1:]
    muts = load_mutants()
    results = []
    for m in muts:
        if sel and not any(s in m["name"] for s in sel):
            continue
        if os.path.exists("/tmp/vmut"):
            shutil.rmtree("/tmp/vmut")
        os.makedirs("/tmp/vmut")
        subprocess.run(["rsync", "-a", "--exclude", "target", "--exclude", ".git", "/repo/", SCRATCH + "/"], check=True)
        ok = True
        for ed in m["edits"]:
            p = os.path.join(SCRATCH, ed["file"])
            s = open(p).read()
            if s.count(ed["old"]) < 1:
                print(f"!! {m['name']}: pattern not found in {ed['file']}")
                ok = False
                break
            s = s.replace(ed["old"], ed["new"], ed.get("count", 1))
            open(p, "w").write(s)
        if not ok:
            continue
        for pid in m["props"]:
            env = dict(os.environ, VERIF_REPO=SCRATCH)
            t0 = time.time()
            # replays/evidence of the real tree must not be touched by sensitivity runs
            env["VERIF_SCRATCH"] = "1"
            p = subprocess.run([os.path.join(VERIF, "check"), pid, "quick"], env=env, stdout=subprocess.PIPE, stderr=subprocess.STDOUT, text=True)
            caught = p.returncode == 1
            kind = ""
            for l in p.stdout.splitlines():
                if l.strip().startswith("kind="):
                    kind = l.strip()[:160]
                    break
            print(f"{m['name']:40s} {pid}  {'CAUGHT' if caught else 'missed (exit %d)' % p.returncode}  {time.time()-t0:5.1f}s  {kind}")
            if p.returncode == 2:
                print(p.stdout[-1500:])
            results.append({"mutant": m["name"], "property": pid, "caught": caught, "kind": kind})
    shutil.rmtree("/tmp/vmut", ignore_errors=True)
    # remove scratch build output
    import hashlib
    tag = hashlib.sha1(os.path.abspath(SCRATCH).encode()).hexdigest()[:8]
    for d in os.listdir(os.path.join(VERIF, "target")):
        if d.endswith("-" + tag):
            shutil.rmtree(os.path.join(VERIF, "target", d), ignore_errors=True)
    json.dump(results, open("/tmp/sensitivity-results.json", "w"), indent=1)

if __name__ == "__main__":
    main()
