#!/usr/bin/env python3
"""Regenerates the table of DESIGN.md section 12.2 from seeded/*/meta.json."""
import glob, json, os, re
VERIF = os.path.dirname(os.path.dirname(os.path.abspath(__file__)))
rows = ["| seeded change (directory under `seeded/`) | breaks | needs, in order to manifest | confirmed | caught by (quick tier) → first violation of the targeted check |", "|---|---|---|---|---|"]
NEEDS = json.load(open(os.path.join(VERIF, "tools", "seeded_needs.json")))
for f in sorted(glob.glob(os.path.join(VERIF, "seeded", "*", "meta.json"))):
    d = json.load(open(f))
    if not d.get("needs_to_manifest") and d["name"] in NEEDS:
        d["needs_to_manifest"] = NEEDS[d["name"]]
        json.dump(d, open(f, "w"), indent=1)
    name = d["name"]
    tgt = d["breaks_property"]
    own = d.get("checks", {}).get(tgt, {})
    kind = own.get("first_violation", "").replace("|", "/")
    kind = re.sub(r"\s+", " ", kind)[:150]
    caught = ", ".join(d.get("caught_by", [])) or "—"
    rows.append(f"| `{name}` | {tgt} | {d.get('needs_to_manifest','')} | {'yes' if d.get('confirmed') else 'NO'} | {caught} → {kind if own.get('caught') else '(targeted check silent)'} |")
table = "\n".join(rows)
p = os.path.join(VERIF, "DESIGN.md")
s = open(p).read()
if "SEEDED_TABLE_PLACEHOLDER" in s:
    s = s.replace("SEEDED_TABLE_PLACEHOLDER", "<!-- SEEDED-TABLE-BEGIN -->\n" + table + "\n<!-- SEEDED-TABLE-END -->")
else:
    s = re.sub(r"<!-- SEEDED-TABLE-BEGIN -->.*?<!-- SEEDED-TABLE-END -->", lambda m: "<!-- SEEDED-TABLE-BEGIN -->\n" + table + "\n<!-- SEEDED-TABLE-END -->", s, flags=re.S)
open(p, "w").write(s)
print(table)
