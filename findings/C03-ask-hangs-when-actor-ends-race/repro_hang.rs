// Stress reproducer: an ask racing with the end of the actor must return Err, never hang.
use rsactor::{spawn_with_mailbox_capacity, Actor, ActorRef, Message};
use std::sync::atomic::{AtomicUsize, Ordering};
use std::sync::Arc;
use std::time::Duration;

struct A;
impl Actor for A {
    type Args = ();
    type Error = String;
    async fn on_start(_: (), _: &ActorRef<Self>) -> Result<Self, String> {
        Ok(A)
    }
}
struct Ping;
struct Boom;
impl Message<Ping> for A {
    type Reply = u32;
    async fn handle(&mut self, _: Ping, _: &ActorRef<Self>) -> u32 {
        1
    }
}
impl Message<Boom> for A {
    type Reply = ();
    async fn handle(&mut self, _: Boom, _: &ActorRef<Self>) {
        panic!("boom");
    }
}

#[test]
fn ask_racing_with_actor_end_never_hangs() {
    std::panic::set_hook(Box::new(|_| {}));
    let rt = tokio::runtime::Builder::new_multi_thread().worker_threads(4).enable_all().build().unwrap();
    let iters: usize = std::env::var("ITERS").ok().and_then(|s| s.parse().ok()).unwrap_or(20000);
    let hangs = Arc::new(AtomicUsize::new(0));
    for i in 0..iters {
        let (r, jh) = rt.block_on(async { spawn_with_mailbox_capacity::<A>((), 8) });
        let mut askers = vec![];
        for k in 0..3 {
            let r2 = r.clone();
            let hangs2 = hangs.clone();
            askers.push(std::thread::spawn(move || {
                // spin a little so that the ask lands around the moment the actor dies
                for _ in 0..(k * 40 + (i % 97)) {
                    std::hint::spin_loop();
                }
                let (tx, rx) = std::sync::mpsc::channel();
                let t = std::thread::spawn(move || {
                    let res = r2.blocking_ask(Ping, None);
                    let _ = tx.send(res.is_ok());
                });
                match rx.recv_timeout(Duration::from_secs(3)) {
                    Ok(_) => {
                        let _ = t.join();
                    }
                    Err(_) => {
                        hangs2.fetch_add(1, Ordering::SeqCst);
                    }
                }
            }));
        }
        rt.block_on(async {
            let _ = r.tell(Boom).await;
        });
        drop(r);
        let _ = rt.block_on(async { tokio::time::timeout(Duration::from_secs(5), jh).await });
        for a in askers {
            let _ = a.join();
        }
        if hangs.load(Ordering::SeqCst) > 0 {
            eprintln!("hang observed at iteration {i}");
            break;
        }
    }
    assert_eq!(hangs.load(Ordering::SeqCst), 0, "an ask on an ended actor never returned");
}
